//! C13 — diagnostics point at the fault.
//! Alphabet: program items {nop, ld, jmp, `A:`, `.l:`, `k = 5`, `#d8 1, 2`, `#res 1`} on a fixed rule set,
//! one item per line; faults {unknown instruction, undefined symbol, out-of-range operand, duplicate label,
//! malformed directive} inserted at every line position; layouts {one file (rules first / last), split over
//! main.asm + an included file at every split point, head or tail}; decorations with 2-, 3- and 4-byte
//! characters before, on and after the fault line.
//! Bound: every valid item sequence of length <= 3 (quick) / <= 4 (thorough).
//! Oracle (no model of the subject, no wording compared):
//!  (a) every located message (recursively): file is one of the inputs, start <= end <= len, char boundaries;
//!  (b) every printed `--> file:line:col:` equals the 1-based line / 1-based CHARACTER column computed here
//!      from the message's byte range start over the file text;
//!  (c) the first error (the top-level message itself, see `first_error_rule`) lies on the faulty line of the
//!      right file, and so do the errors nested inside it (plain rules only: no asm blocks).
use crate::run;
use crate::stats::*;
use serde_json::{json, Value};
use std::panic::{catch_unwind, AssertUnwindSafe};

pub const ID: &str = "C13";

const RULES: [&str; 9] = ["#ruledef {", "    nop => 0x00", "    ld {x: u8} => 0x10 @ x", "    jmp {a: u16} => 0x20 @ a", "}", "#fn byte(x) =>", "{", "    assert(x < 256), x`8", "}"];
const ITEMS: [&str; 8] = ["nop", "ld 0x12", "jmp 0x1234", "A:", ".l:", "k = 5", "#d8 1, 2", "#res 1"];
const IDX_A: usize = 3;
const IDX_L: usize = 4;
const IDX_K: usize = 5;

const FIRST_ERROR_RULE: &str = "the first error is the first message of kind error in reading order (the top-level message on the unchanged tree), judged by its own location, not by its deepest located child: in /repo/tests/*/err_*.asm the first element of every `; error:` annotation (the outermost error) is the one expected on the annotated (faulty) line, while nested elements carry explicit `_:N` references to other lines (rule definitions `note:_:3: within`, first declarations `note:_:6: first`, asm-block bodies)";

/// Input-side validity of a base program: `A:` and `k = 5` at most once; `.l:` needs a preceding level-0 symbol
/// (label or constant; probed: a leading `.l:` is "symbol declaration skips a nesting level") and is unique
/// between two `A:`. Conservative: `.l:` twice with only `k = 5` in between is excluded because the scoping
/// effect of a constant is not determined by the documentation.
fn base_valid(items: &[usize]) -> bool {
    let count = |x: usize| items.iter().filter(|i| **i == x).count();
    if count(IDX_A) > 1 || count(IDX_K) > 1 {
        return false;
    }
    let mut seen_l = false;
    let mut seen_parent = false;
    for &i in items {
        if i == IDX_A {
            seen_l = false;
            seen_parent = true;
        } else if i == IDX_K {
            seen_parent = true;
        } else if i == IDX_L {
            if seen_l || !seen_parent {
                return false;
            }
            seen_l = true;
        }
    }
    true
}

#[derive(Clone)]
struct Fault {
    kind: &'static str,
    text: String,
    /// variant of the same fault as a later `#d64` element, with a multi-byte string element before it
    inline: Option<String>,
    /// duplicate label: index of the original declaration in the base
    orig: Option<usize>,
    /// directive without operand: the subject's grammar lets the operand start on the next non-empty line
    open_ended: bool,
}

fn faults_for(items: &[usize], pos: usize) -> Vec<Fault> {
    let f = |kind, text: &str, inline: Option<&str>| Fault { kind, text: text.to_string(), inline: inline.map(|s| s.to_string()), orig: None, open_ended: text == "#res" || text == "#d8 1 +" };
    let mut v = vec![
        f("unknown-instr", "xyz 1", None),
        f("undef-sym", "ld undefined_sym", Some("#d64 \"→😀\", undefined_sym")),
        f("out-of-range", "ld 0x1ff", Some("#d64 \"→😀\", 0x1_ffff_ffff_ffff_ffff")),
        f("out-of-range", "ld 256", None),
        f("malformed-directive", "#d8 ,", Some("#d64 \"→😀\", ,")),
        f("malformed-directive", "#res", None),
        f("malformed-directive", "#bogus", None),
        // the operand is rejected inside a user function: the fault is still on the line that calls it
        f("out-of-range", "#d byte(300)", None),
        f("out-of-range", "kk = byte(300)", None),
        // a multi-line definition block whose SECOND field line is wrong (written as one fault "line" with embedded
        // breaks is not possible here: the block is given on one line, fields separated by commas, the bad one last)
        f("malformed-directive", "#d8 1 +", None),
        f("malformed-directive", "#ruledef { => 0x55 }", None),
    ];
    // duplicate label: repeat an existing label where that really is a redeclaration in the same scope
    for (j, &it) in items.iter().enumerate() {
        if it != IDX_A && it != IDX_L {
            continue;
        }
        let between: &[usize] = if pos <= j { &items[pos..j] } else { &items[j + 1..pos] };
        let same_scope = it == IDX_A || !between.iter().any(|&b| b == IDX_A || b == IDX_K);
        if same_scope {
            v.push(Fault { kind: "dup-label", text: ITEMS[it].to_string(), inline: None, orig: Some(j), open_ended: false });
        }
    }
    v
}

#[derive(Clone, Debug)]
struct Ln {
    text: String,
    /// 0 ordinary, 1 the fault, 2 the original declaration of a duplicated label
    tag: u8,
}

fn ln(s: &str) -> Ln {
    Ln { text: s.to_string(), tag: 0 }
}

#[derive(Clone, Copy, Debug, PartialEq, Eq)]
enum Layout {
    SingleRulesFirst,
    SingleRulesLast,
    /// main = lines[..s], include, rules ; inc = lines[s..]
    Tail(usize),
    /// main = rules, include, lines[s..] ; inc = lines[..s]
    Head(usize),
}

impl Layout {
    fn name(&self) -> &'static str {
        match self {
            Layout::SingleRulesFirst => "single-rules-first",
            Layout::SingleRulesLast => "single-rules-last",
            Layout::Tail(_) => "include-tail",
            Layout::Head(_) => "include-head",
        }
    }
    fn coord(&self) -> Value {
        match self {
            Layout::Tail(s) | Layout::Head(s) => json!({"layout": self.name(), "split": s}),
            _ => json!({"layout": self.name()}),
        }
    }
}

fn layouts(m: usize) -> Vec<Layout> {
    let mut v = vec![Layout::SingleRulesFirst, Layout::SingleRulesLast];
    for s in 0..=m {
        v.push(Layout::Tail(s));
    }
    for s in 1..=m {
        v.push(Layout::Head(s));
    }
    v
}

type Files = Vec<(String, Vec<Ln>)>;

fn lay_out(lines: &[Ln], lay: Layout) -> Files {
    let rules: Vec<Ln> = RULES.iter().map(|s| ln(s)).collect();
    match lay {
        Layout::SingleRulesFirst => {
            let mut m = rules;
            m.extend_from_slice(lines);
            vec![("main.asm".into(), m)]
        }
        Layout::SingleRulesLast => {
            let mut m = lines.to_vec();
            m.extend(rules);
            vec![("main.asm".into(), m)]
        }
        Layout::Tail(s) => {
            let mut m = lines[..s].to_vec();
            m.push(ln("#include \"inc.asm\""));
            m.extend(rules);
            vec![("main.asm".into(), m), ("inc.asm".into(), lines[s..].to_vec())]
        }
        Layout::Head(s) => {
            let mut m = rules;
            m.push(ln("#include \"inc.asm\""));
            m.extend_from_slice(&lines[s..]);
            vec![("main.asm".into(), m), ("inc.asm".into(), lines[..s].to_vec())]
        }
    }
}

const DECS: [&str; 17] = [
    "none",
    "own-line-before:é",
    "own-line-before:→",
    "own-line-before:😀",
    "prev-line-comment:é",
    "prev-line-comment:→",
    "prev-line-comment:😀",
    "string-element-before-fault",
    "comment-after-fault-same-line",
    "comments-on-later-lines",
    "line1-several,fault-line>=3",
    "other-file",
    "all-around",
    "no-trailing-newline",
    "tab-indented-fault-line",
    "tab-indented-all-lines",
    "crlf-line-endings",
];

fn find_fault(files: &Files) -> (usize, usize) {
    for (fi, (_, ls)) in files.iter().enumerate() {
        for (li, l) in ls.iter().enumerate() {
            if l.tag == 1 {
                return (fi, li);
            }
        }
    }
    unreachable!("no fault line")
}

/// Apply decoration `d` (after layout: "before"/"after" are relative to the fault inside its own file).
/// Returns None when the decoration is not applicable; the bool is "keep the trailing newline".
fn decorate(mut files: Files, d: usize, fault: &Fault) -> Option<(Files, bool)> {
    let (fi, li) = find_fault(&files);
    let ch = |d: usize| ["é", "→", "😀"][(d - 1) % 3];
    let mut nl = true;
    match d {
        0 => {}
        1..=3 => files[fi].1.insert(0, ln(&format!("; {}", ch(d)))),
        4..=6 => {
            if li == 0 {
                return None;
            }
            files[fi].1[li - 1].text += &format!(" ; {}", ch(d));
        }
        7 => {
            let t = fault.inline.clone()?;
            files[fi].1[li].text = t;
        }
        8 => files[fi].1[li].text += " ; é→😀",
        9 => {
            for l in files[fi].1[li + 1..].iter_mut() {
                l.text += " ; →é";
            }
            files[fi].1.push(ln("; 😀 end"));
        }
        10 => {
            if li + 2 < 3 {
                return None;
            }
            files[fi].1.insert(0, ln("; é é é → 😀 é"));
        }
        11 => {
            if files.len() < 2 {
                return None;
            }
            for (k, f) in files.iter_mut().enumerate() {
                if k != fi {
                    f.1.insert(0, ln("; é→😀"));
                }
            }
        }
        12 => {
            for l in files[fi].1[li + 1..].iter_mut() {
                l.text += " ; →é";
            }
            files[fi].1[li].text += " ; 😀é";
            if li > 0 {
                files[fi].1[li - 1].text += " ; é😀→";
            }
            files[fi].1.insert(0, ln("; →→ é 😀"));
            files[fi].1.push(ln("; 😀"));
        }
        13 => nl = false,
        14 => {
            // a TAB is one character: columns must not count it as two
            let t = files[fi].1[li].text.clone();
            files[fi].1[li].text = format!("\t\t{}", t);
        }
        15 => {
            for l in files[fi].1.iter_mut() {
                let t = l.text.clone();
                l.text = format!("\t{}", t);
            }
        }
        16 => {
            // CR LF line endings in every file: a location is a byte range of the file as it is on disk
            for f in files.iter_mut() {
                for l in f.1.iter_mut() {
                    l.text.push('\r');
                }
            }
        }
        _ => unreachable!(),
    }
    Some((files, nl))
}

/// A fully built case: file texts, the fault's place, acceptable places for the first error.
struct Built {
    files: Vec<(String, String)>,
    /// (file, 1-based line) of the fault
    fault: (String, usize),
    /// other acceptable (file, line) for the first error (duplicate inserted *before* the original)
    also: Vec<(String, usize)>,
    /// false: the place of the first error is Unspecified for this case (operand-less directive followed by
    /// content in the same file: the subject's grammar continues the directive on the next non-empty line,
    /// `#res` newline `2` == `#res 2`, so which line is "the faulty line" is not determined)
    judge_first: bool,
}

fn build(files: &Files, trailing_nl: bool, relaxed_dup: bool, open_ended: bool) -> Built {
    let mut out = vec![];
    let mut fault = None;
    let mut also = vec![];
    let mut judge_first = true;
    for (name, ls) in files {
        let mut t = ls.iter().map(|l| l.text.as_str()).collect::<Vec<_>>().join("\n");
        if trailing_nl && !ls.is_empty() {
            t.push('\n');
        }
        for (i, l) in ls.iter().enumerate() {
            if l.tag == 1 {
                fault = Some((name.clone(), i + 1));
                if open_ended {
                    // next line of the same file that has content outside a comment
                    // ... unless that line starts with a dot: `.name` after a line break is a new declaration, never the
                    // continuation of an expression (the expression parser stops at a line break in front of a dot)
                    if let Some(n) = ls[i + 1..].iter().find(|n| !n.text.split(';').next().unwrap_or("").trim().is_empty()) {
                        if !n.text.trim_start().starts_with('.') {
                            judge_first = false;
                        }
                    }
                }
            } else if l.tag == 2 && relaxed_dup {
                also.push((name.clone(), i + 1));
            }
        }
        out.push((name.clone(), t));
    }
    Built { files: out, fault: fault.expect("fault line"), also, judge_first }
}

// ------------------------------------------------------------------------------------------------
// independent location arithmetic

/// 1-based line and 1-based character column of byte offset `at` (must be a char boundary <= len).
fn line_col(text: &str, at: usize) -> (usize, usize) {
    let before = &text[..at];
    let line = 1 + before.bytes().filter(|b| *b == b'\n').count();
    let line_start = before.rfind('\n').map(|p| p + 1).unwrap_or(0);
    let col = 1 + text[line_start..at].chars().count();
    (line, col)
}

/// byte range [begin, end] of 1-based `line`, `end` including its line break (or len)
fn line_extent(text: &str, line: usize) -> (usize, usize) {
    let mut begin = 0usize;
    let mut cur = 1usize;
    for (i, b) in text.bytes().enumerate() {
        if cur == line {
            break;
        }
        if b == b'\n' {
            cur += 1;
            begin = i + 1;
        }
    }
    let end = text[begin..].find('\n').map(|p| begin + p + 1).unwrap_or(text.len());
    (begin, end)
}

fn located<'a>(m: &'a run::MsgObs, out: &mut Vec<&'a run::MsgObs>) {
    if m.range.is_some() {
        out.push(m);
    }
    for i in &m.inner {
        located(i, out);
    }
}

/// `--> file:line:col:` lines of the printed report, in order
fn parse_arrows(text: &str) -> Vec<(String, usize, usize)> {
    let mut v = vec![];
    for line in text.lines() {
        let t = line.trim_start();
        let Some(rest) = t.strip_prefix("--> ") else { continue };
        let Some(rest) = rest.strip_suffix(':') else { continue };
        let mut it = rest.rsplitn(3, ':');
        let (Some(c), Some(l), Some(f)) = (it.next(), it.next(), it.next()) else { continue };
        let (Ok(c), Ok(l)) = (c.parse::<usize>(), l.parse::<usize>()) else { continue };
        v.push((f.to_string(), l, c));
    }
    v
}

struct Meta<'a> {
    kind: &'a str,
    layout: &'a str,
    dec: &'a str,
    coords: Value,
}

fn files_json(files: &[(String, String)]) -> Value {
    Value::Object(files.iter().map(|(n, t)| (n.clone(), json!(t))).collect())
}

/// Run the subject on the case and evaluate the three oracle parts.
fn judge(b: &Built, meta: &Meta, l: &mut Local, verbose: bool) {
    let files: Vec<(String, Vec<u8>)> = b.files.iter().map(|(n, t)| (n.clone(), t.as_bytes().to_vec())).collect();
    let text_of = |name: &str| b.files.iter().find(|(n, _)| n == name).map(|(_, t)| t.as_str());
    let any_multibyte = b.files.iter().any(|(_, t)| !t.is_ascii());
    l.eval();
    let raw = run::assemble_raw(&files, &["main.asm"], &run::Opts::default());
    let msgs = run::messages_of(&raw.fs, &raw.report);
    let flat: Vec<String> = msgs.iter().map(|m| m.flat()).collect();
    let case = |expected: Value, observed: Value| {
        json!({"files": files_json(&b.files), "roots": ["main.asm"], "fault": {"file": b.fault.0, "line": b.fault.1, "kind": meta.kind, "also_accepted": b.also, "first_error_judged": b.judge_first},
            "layout": meta.layout, "decoration": meta.dec, "coordinates": meta.coords, "expected": expected, "observed": observed})
    };
    if let Some(p) = &raw.panicked {
        l.class("assembly-panicked");
        l.violation(Violation {
            property: ID,
            key: format!("assemble-panic:{}", meta.kind),
            what: format!("assembling a program with one {} fault panicked, so no diagnostic points at the fault", meta.kind),
            case: case(json!("an error located on the faulty line"), json!({"panic": p, "messages": flat})),
        });
        return;
    }

    // (a) location validity of every located message
    let mut loc = vec![];
    for m in &msgs {
        located(m, &mut loc);
    }
    let mut comparable = vec![];
    for m in &loc {
        let (s, e) = m.range.unwrap();
        let f = m.file.clone().unwrap_or_default();
        let bad = match text_of(&f) {
            None => Some("names a file that is not among the inputs"),
            Some(t) => {
                if !(s <= e && e <= t.len()) {
                    Some("byte range is not inside the file (start <= end <= length violated)")
                } else if !t.is_char_boundary(s) || !t.is_char_boundary(e) {
                    Some("byte range does not lie on UTF-8 character boundaries")
                } else {
                    None
                }
            }
        };
        l.class("located-message-checked");
        match bad {
            Some(why) => {
                comparable.push(None);
                l.violation(Violation {
                    property: ID,
                    key: format!("range-invalid:{}", meta.layout),
                    what: format!("diagnostic location {}:{}..{} {}", f, s, e, why),
                    case: case(json!("existing input file, start <= end <= len, char boundaries"), json!({"message": m.flat(), "file_len": text_of(&f).map(|t| t.len()), "messages": flat})),
                });
            }
            None => comparable.push(Some(line_col(text_of(&f).unwrap(), s))),
        }
    }

    // (b) printed line:col
    let mut buf: Vec<u8> = vec![];
    let pr = catch_unwind(AssertUnwindSafe(|| raw.report.print_all(&mut buf, &raw.fs, false)));
    let printed = String::from_utf8_lossy(&buf).to_string();
    if verbose {
        println!("--- printed diagnostics ---\n{}--- structured ---\n{}", printed, flat.join("\n"));
    }
    match pr {
        Err(e) => {
            l.class("print-panicked");
            let key = if any_multibyte { "C13:multibyte-line-col".to_string() } else { "print-panic".to_string() };
            l.violation(Violation {
                property: ID,
                key,
                what: format!("printing the diagnostics panicked ({} source)", if any_multibyte { "non-ASCII" } else { "ASCII-only" }),
                case: case(json!("diagnostics are printed"), json!({"panic": run::panic_text(e), "messages": flat})),
            });
        }
        Ok(()) => {
            let arrows = parse_arrows(&printed);
            if arrows.len() != loc.len() {
                l.violation(Violation {
                    property: ID,
                    key: "printed-location-count".into(),
                    what: format!("{} located messages but {} printed `--> file:line:col:` lines", loc.len(), arrows.len()),
                    case: case(json!({"located": loc.len()}), json!({"printed": printed, "messages": flat})),
                });
            } else {
                for ((m, exp), (pf, pl, pc)) in loc.iter().zip(comparable.iter()).zip(arrows.iter()) {
                    let Some((el, ec)) = exp else { continue };
                    let f = m.file.clone().unwrap_or_default();
                    let s = m.range.unwrap().0;
                    let mb_before = !text_of(&f).unwrap()[..s].is_ascii();
                    l.class("printed-location-compared");
                    if mb_before {
                        l.class("printed-location-compared,multibyte-before-span");
                    }
                    if *pf != f || pl != el || pc != ec {
                        let key = if *pf != f {
                            "printed-file".to_string()
                        } else if mb_before {
                            "C13:multibyte-line-col".to_string()
                        } else {
                            "printed-line-col:ascii-prefix".to_string()
                        };
                        l.violation(Violation {
                            property: ID,
                            key,
                            what: format!(
                                "printed `--> {}:{}:{}` but byte {} of {} is line {}, character column {}{}",
                                pf,
                                pl,
                                pc,
                                s,
                                f,
                                el,
                                ec,
                                if mb_before { " (multi-byte characters precede it in the file)" } else { "" }
                            ),
                            case: case(json!({"file": f, "line": el, "col": ec, "byte_start": s}), json!({"printed_file": pf, "line": pl, "col": pc, "message": m.flat(), "printed": printed})),
                        });
                    }
                }
            }
        }
    }

    // (c) the first error lies on the faulty line of the right file
    // first error = first message of kind `error` in reading (pre-)order; on the unchanged tree that is always a
    // top-level message (class `first-error-is-top-level`)
    fn first_error(ms: &[run::MsgObs]) -> Option<&run::MsgObs> {
        for m in ms {
            if m.kind == "error" {
                return Some(m);
            }
            if let Some(e) = first_error(&m.inner) {
                return Some(e);
            }
        }
        None
    }
    let first = first_error(&msgs);
    if first.is_some() && msgs.iter().any(|m| std::ptr::eq(m, first.unwrap())) {
        l.class("first-error-is-top-level");
    }
    let mut accepted = vec![b.fault.clone()];
    accepted.extend(b.also.iter().cloned());
    let fam = format!("first-error-location:{}:{}", meta.kind, meta.layout);
    match first {
        _ if !b.judge_first => {
            l.unspecified += 1;
        }
        None => {
            // silence after a fault is C03's subject (failure is loud); C13 has nothing to locate
            l.class("no-error-reported");
            l.unspecified += 1;
        }
        Some(m) => {
            let verdict: Result<(), String> = (|| {
                let (Some(f), Some((s, e))) = (m.file.clone(), m.range) else { return Err("the first error carries no location".to_string()) };
                let Some(t) = text_of(&f) else { return Err(format!("the first error names `{}`, which is not an input", f)) };
                if !(s <= e && e <= t.len()) || !t.is_char_boundary(s) {
                    return Err("the first error's range is invalid".to_string());
                }
                let (line, _) = line_col(t, s);
                if meta.layout == "directed-multi-line-asm-block" && !accepted.iter().any(|(af, al)| *af == f && *al == line) {
                    // the faulty line lies inside an expression that spans several lines: the outermost error may name
                    // the whole expression, if it covers the faulty line and an error nested in it names that line alone
                    let (eline, _) = line_col(t, e.saturating_sub(1).max(s));
                    if f != b.fault.0 || !(line <= b.fault.1 && b.fault.1 <= eline) {
                        return Err(format!("the first error covers {}:{}..{} (bytes {}..{}), the fault is on {}:{}", f, line, eline, s, e, b.fault.0, b.fault.1));
                    }
                    let mut inner = vec![];
                    for i in &m.inner {
                        located(i, &mut inner);
                    }
                    let on_fault_line = inner.iter().any(|n| {
                        n.kind == "error" && n.file.as_deref() == Some(f.as_str()) && n.range.map(|(ns, ne)| ns <= t.len() && t.is_char_boundary(ns) && line_col(t, ns).0 == b.fault.1 && ne <= line_extent(t, b.fault.1).1).unwrap_or(false)
                    });
                    if !on_fault_line {
                        return Err(format!("the first error covers the lines {}..{} of {} and no error nested in it names the faulty line {} alone", line, eline, f, b.fault.1));
                    }
                    return Ok(());
                }
                if !accepted.iter().any(|(af, al)| *af == f && *al == line) {
                    return Err(format!("the first error is located at {}:{} (bytes {}..{}), the fault is on {}:{}", f, line, s, e, b.fault.0, b.fault.1));
                }
                let (_, lend) = line_extent(t, line);
                if e > lend {
                    return Err(format!("the first error starts on the faulty line {}:{} but extends past it (bytes {}..{}, line ends at {})", f, line, s, e, lend));
                }
                Ok(())
            })();
            // nested *errors* of the first error: this rule set has no asm blocks or nested rules, so (as in the
            // repository's own annotations, where nested `error:` elements without `_:N` sit on the annotated
            // line) every nested error belongs to the faulty line too; nested notes may point anywhere.
            let mut nested = vec![];
            for i in &m.inner {
                located(i, &mut nested);
            }
            // (a fault that lies in the ARGUMENT of a user function is the exception: the nested error is the failed
            // assert inside the function body, on the function's own lines)
            let through_function = meta.coords["fault_text"].as_str().map(|t| t.contains("byte(")).unwrap_or(false);
            for n in nested.iter().filter(|n| n.kind == "error" && !through_function) {
                let (f, (s, _)) = (n.file.clone().unwrap_or_default(), n.range.unwrap());
                let Some(t) = text_of(&f) else { continue };
                if s > t.len() || !t.is_char_boundary(s) {
                    continue; // already reported by (a)
                }
                let (line, _) = line_col(t, s);
                l.class("nested-error-checked");
                if !accepted.iter().any(|(af, al)| *af == f && *al == line) {
                    l.violation(Violation {
                        property: ID,
                        key: format!("nested-error-location:{}:{}", meta.kind, meta.layout),
                        what: format!("{} fault, {}: an error nested in the first error is located at {}:{} (byte {}), the fault is on {}:{}", meta.kind, meta.layout, f, line, s, b.fault.0, b.fault.1),
                        case: case(json!({"nested_errors_at": accepted}), json!({"nested_error": n.flat(), "messages": flat})),
                    });
                }
            }
            match verdict {
                Ok(()) => l.class("first-error-on-fault-line"),
                Err(why) => {
                    l.class("first-error-elsewhere");
                    l.violation(Violation {
                        property: ID,
                        key: fam,
                        what: format!("{} fault, {}: {}", meta.kind, meta.layout, why),
                        case: case(json!({"first_error_at": accepted}), json!({"first_error": m.flat(), "messages": flat})),
                    });
                }
            }
        }
    }
}

fn all_bases(maxlen: u32) -> Vec<Vec<usize>> {
    let k = ITEMS.len() as u64;
    (0..seq_count(k, maxlen)).map(|i| seq_decode(i, k, maxlen)).filter(|s| base_valid(s)).collect()
}

fn program_single(items: &[usize]) -> String {
    let mut s = RULES.join("\n");
    s.push('\n');
    for i in items {
        s += ITEMS[*i];
        s.push('\n');
    }
    s
}

pub fn run(ctx: &Ctx) -> Report {
    let mut rep = Report::new(
        "exploration",
        "every valid item sequence up to the bound x every insertion position x every fault variant x every layout (one file, split at every point over main.asm + included file) x every applicable decoration; each execution is judged for location validity of all messages, printed line:column against an independent byte->line/char-column computation, and the place of the first error. A case is non-trivial iff something precedes the fault in its file or another file exists or the text is decorated (i.e. everything except a fault on line 1 of an undecorated rules-last single file); distinct = distinct file-set text",
    );
    let maxlen: u32 = if ctx.thorough { 4 } else { 3 };
    let candidates = all_bases(maxlen);
    // the base must really be valid: confirm with the subject (a rejected base gives no verdict)
    let mut bases = vec![];
    let mut rejected = vec![];
    for b in &candidates {
        let obs = run::assemble_str(&program_single(b), &run::Opts::default());
        rep.local.eval();
        if obs.success() {
            bases.push(b.clone());
        } else {
            rejected.push(json!(b.iter().map(|i| ITEMS[*i]).collect::<Vec<_>>()));
        }
    }
    rep.local.unspecified += rejected.len() as u64;
    rep.extra("bases", json!({"sequences": seq_count(ITEMS.len() as u64, maxlen), "valid_by_input_rule": candidates.len(), "accepted_by_subject": bases.len(), "rejected_by_subject_no_verdict": rejected.iter().take(10).collect::<Vec<_>>()}));
    if bases.is_empty() {
        rep.machinery_error = Some("no valid base program".into());
        return rep;
    }

    let mut units: Vec<(usize, usize)> = vec![];
    for (bi, b) in bases.iter().enumerate() {
        for pos in 0..=b.len() {
            units.push((bi, pos));
        }
    }
    let local = par_cases(&units, |&(bi, pos), l| {
        let items = &bases[bi];
        for (fidx, fault) in faults_for(items, pos).iter().enumerate() {
            let mut lines: Vec<Ln> = items.iter().map(|i| ln(ITEMS[*i])).collect();
            if let Some(j) = fault.orig {
                lines[j].tag = 2;
            }
            lines.insert(pos, Ln { text: fault.text.clone(), tag: 1 });
            let relaxed = fault.orig.map(|j| pos <= j).unwrap_or(false);
            for lay in layouts(lines.len()) {
                let laid = lay_out(&lines, lay);
                for d in 0..DECS.len() {
                    let Some((files, nl)) = decorate(laid.clone(), d, fault) else { continue };
                    let b = build(&files, nl, relaxed, fault.open_ended);
                    let coords = json!({"items": items.iter().map(|i| ITEMS[*i]).collect::<Vec<_>>(), "position": pos, "fault_index": fidx, "fault_text": fault.text, "layout": lay.coord(), "decoration": d});
                    let meta = Meta { kind: fault.kind, layout: lay.name(), dec: DECS[d], coords };
                    l.class(&format!("fault:{}", fault.kind));
                    l.class(&format!("layout:{}", lay.name()));
                    l.class(&format!("decoration:{}", DECS[d]));
                    l.count(&format!("base-length={}", items.len()), 1);
                    if b.fault.0 != "main.asm" {
                        l.class("fault-in-included-file");
                    }
                    if !b.judge_first {
                        l.class("operand-less-directive-followed-by-content(first-error place unspecified)");
                    }
                    if relaxed {
                        l.class("dup-label-inserted-before-original(either line accepted)");
                    }
                    let trivial = d == 0 && lay == Layout::SingleRulesLast && pos == 0;
                    if !trivial {
                        l.nontrivial(&b.files);
                    }
                    judge(&b, &meta, l, false);
                    if d == 12 && pos == 1 {
                        l.sample(|| json!({"files": files_json(&b.files), "fault": {"file": b.fault.0, "line": b.fault.1, "kind": fault.kind}}));
                    }
                }
            }
        }
    });
    rep.absorb(local);
    rep.extra("levels", json!(rep.local.counters.clone()));
    // directed: faults inside multi-line blocks (a bank definition whose k-th field line is misspelt, a rule block whose
    // k-th rule line is malformed), in the root file and in an included file, with multi-byte text around
    {
        let mut directed: Vec<Built> = vec![];
        let bank_fields = ["    #addr 0x100", "    #size 0x10", "    #outp 0"];
        for bad in 0..=bank_fields.len() {
            for in_include in [false, true] {
                for deco in [false, true] {
                    let mut lines: Vec<String> = vec![];
                    if deco {
                        lines.push("; \u{e9}\u{2192}\u{1f600}".into());
                    }
                    lines.push("#bankdef a".into());
                    lines.push("{".into());
                    let mut fault_line = 0;
                    for (k, f) in bank_fields.iter().enumerate() {
                        if k == bad {
                            lines.push("    #outpt 0 ; \u{e9}".into());
                            fault_line = lines.len();
                        }
                        lines.push(f.to_string());
                    }
                    if bad == bank_fields.len() {
                        lines.push("    #outpt 0".into());
                        fault_line = lines.len();
                    }
                    lines.push("}".into());
                    lines.push("#d8 1".into());
                    let text = lines.join("\n") + "\n";
                    let (files, fault) = if in_include {
                        (vec![("main.asm".to_string(), "; \u{e9}\n#include \"banks.asm\"\n".to_string()), ("banks.asm".to_string(), text)], ("banks.asm".to_string(), fault_line))
                    } else {
                        (vec![("main.asm".to_string(), text)], ("main.asm".to_string(), fault_line))
                    };
                    directed.push(Built { files, fault, also: vec![], judge_first: true });
                }
            }
        }
        rep.absorb(par_cases(&directed, |b, l| {
            l.nontrivial(&b.files);
            l.class("fault:malformed-directive");
            judge(b, &Meta { kind: "malformed-directive", layout: "directed-multi-line-block", dec: "none", coords: json!({"fault_text": "#outpt 0", "fault_line": b.fault.1}) }, l, false);
        }));
    }
    // directed: an instruction nobody defines on the k-th line of a multi-line `asm` block used as an expression (data
    // element, constant): the error belongs to that line, not to the line that opens the block
    {
        let mut directed: Vec<Built> = vec![];
        let body = ["    nop", "    ld 0x12 ; \u{e9}", "    nop"];
        for opener in ["#d asm {", "#d8 0x55, asm {", "kk = asm {", "#d 0x1 @ asm {"] {
            for bad in 0..=body.len() {
                for in_include in [false, true] {
                    for deco in [false, true] {
                        let mut lines: Vec<String> = vec![];
                        if deco {
                            lines.push("; \u{e9}\u{2192}\u{1f600}".into());
                        }
                        lines.push("#ruledef {".into());
                        lines.push("    nop => 0x00".into());
                        lines.push("    ld {x: u8} => 0x10 @ x".into());
                        lines.push("}".into());
                        lines.push(opener.into());
                        let mut fault_line = 0;
                        for (k, f) in body.iter().enumerate() {
                            if k == bad {
                                lines.push("    xyz 1".into());
                                fault_line = lines.len();
                            }
                            lines.push(f.to_string());
                        }
                        if bad == body.len() {
                            lines.push("    xyz 1".into());
                            fault_line = lines.len();
                        }
                        lines.push(if opener.starts_with("#d 0x1") { "} @ 0x2".into() } else { "}".into() });
                        lines.push("#d8 1".into());
                        let text = lines.join("\n") + "\n";
                        let (files, fault) = if in_include {
                            (vec![("main.asm".to_string(), "; \u{e9}\n#include \"code.asm\"\n".to_string()), ("code.asm".to_string(), text)], ("code.asm".to_string(), fault_line))
                        } else {
                            (vec![("main.asm".to_string(), text)], ("main.asm".to_string(), fault_line))
                        };
                        directed.push(Built { files, fault, also: vec![], judge_first: true });
                    }
                }
            }
        }
        rep.absorb(par_cases(&directed, |b, l| {
            l.nontrivial(&b.files);
            l.class("fault:unknown-instr");
            judge(b, &Meta { kind: "unknown-instr", layout: "directed-multi-line-asm-block", dec: "none", coords: json!({"fault_text": "xyz 1", "fault_line": b.fault.1}) }, l, false);
        }));
    }
    // directed: a valid instruction whose operand calls a user function reading a label declared further ahead (so the
    // call has no value in the first pass) stands before the fault: the first error still belongs to the faulty line
    {
        let mut directed: Vec<Built> = vec![];
        for fault in ["ld undefined_sym", "ld 0x1ff", "jmp 0x1_0000", "#d8 0x1ff", "#d8 undefined_sym"] {
            for ncalls in 1..=2usize {
                for gap in 0..=1usize {
                    for in_include in [false, true] {
                        let mut lines: Vec<String> = vec!["#ruledef {".into(), "    nop => 0x00".into(), "    ld {x: u8} => 0x10 @ x".into(), "    jmp {a: u16} => 0x20 @ a".into(), "}".into(), "#fn ahead(x) => x + later".into()];
                        for _ in 0..ncalls {
                            lines.push("ld ahead(1)".into());
                        }
                        for _ in 0..gap {
                            lines.push("nop".into());
                        }
                        lines.push(fault.into());
                        let fault_line = lines.len();
                        lines.push("nop".into());
                        lines.push("later:".into());
                        let text = lines.join("\n") + "\n";
                        let (files, f) = if in_include {
                            (vec![("main.asm".to_string(), "; \u{e9}\n#include \"code.asm\"\n".to_string()), ("code.asm".to_string(), text)], ("code.asm".to_string(), fault_line))
                        } else {
                            (vec![("main.asm".to_string(), text)], ("main.asm".to_string(), fault_line))
                        };
                        directed.push(Built { files, fault: f, also: vec![], judge_first: true });
                    }
                }
            }
        }
        rep.absorb(par_cases(&directed, |b, l| {
            l.nontrivial(&b.files);
            l.class("fault:after-an-unresolved-function-call");
            judge(b, &Meta { kind: "after-unresolved-call", layout: "directed-after-function-call", dec: "none", coords: json!({"fault_text": "see files", "fault_line": b.fault.1}) }, l, false);
        }));
    }
    rep.extra("bound", json!({"max_items": maxlen, "alphabet": ITEMS, "rules": RULES, "decorations": DECS, "fault_variants": ["xyz 1", "ld undefined_sym", "ld 0x1ff", "ld 256", "#d8 ,", "#res", "#bogus", "#d8 1 +", "#ruledef { => 0x55 }", "#d byte(300)", "kk = byte(300)", "repeat of each label redeclarable at that position"]}));
    rep.extra("first_error_rule", json!(FIRST_ERROR_RULE));
    rep.assumptions = vec![
        "a base program counts as valid only if the input-side rule says so AND the subject assembles it cleanly".into(),
        "`-->` lines of print_all are paired with located messages in pre-order (message, then its nested messages)".into(),
        "a duplicate label inserted before the original declaration may be reported on either of the two declarations".into(),
        "a faulted program that produces no error at all is C03's subject and gets no C13 verdict (counted)".into(),
    ];
    for c in [
        "fault:unknown-instr",
        "fault:undef-sym",
        "fault:out-of-range",
        "fault:dup-label",
        "fault:malformed-directive",
        "fault-in-included-file",
        "first-error-on-fault-line",
        "printed-location-compared",
        "printed-location-compared,multibyte-before-span",
        "decoration:string-element-before-fault",
        "decoration:crlf-line-endings",
    ] {
        rep.require_class(c);
    }
    rep
}

fn sh_printf(text: &str) -> String {
    let mut o = String::from("printf '");
    for c in text.chars() {
        match c {
            '\n' => o += "\\n",
            '\\' => o += "\\\\",
            '%' => o += "%%",
            '\'' => o += "'\\''",
            c => o.push(c),
        }
    }
    o.push('\'');
    o
}

pub fn replay(ctx: &Ctx, case: &Value) -> i32 {
    let shown = std::cell::Cell::new(false);
    super::replay_with(ctx, case, |case, l| {
        let mut files: Vec<(String, String)> = case["files"].as_object().map(|o| o.iter().map(|(k, v)| (k.clone(), v.as_str().unwrap_or("").to_string())).collect()).unwrap_or_default();
        files.sort_by_key(|(n, _)| n != "main.asm");
        let fault = (case["fault"]["file"].as_str().unwrap_or("main.asm").to_string(), case["fault"]["line"].as_u64().unwrap_or(0) as usize);
        let also = case["fault"]["also_accepted"].as_array().map(|a| a.iter().filter_map(|p| Some((p[0].as_str()?.to_string(), p[1].as_u64()? as usize))).collect()).unwrap_or_default();
        let b = Built { files, fault, also, judge_first: case["fault"]["first_error_judged"].as_bool().unwrap_or(true) };
        let verbose = !shown.replace(true);
        if verbose {
            for (n, t) in &b.files {
                println!("=== {} ===\n{}", n, t);
            }
            println!("fault: {}:{} ({})", b.fault.0, b.fault.1, case["fault"]["kind"]);
            println!("expected: {}", case["expected"]);
            let mut sh = String::from("mkdir c13-repro && cd c13-repro");
            for (n, t) in &b.files {
                sh += &format!(" && {} > {}", sh_printf(t), n);
            }
            sh += " && customasm main.asm -p   # compare the `--> file:line:col` lines / look for a panic";
            println!("real binary: {}", sh);
        }
        let meta = Meta { kind: case["fault"]["kind"].as_str().unwrap_or("?"), layout: case["layout"].as_str().unwrap_or("?"), dec: case["decoration"].as_str().unwrap_or("?"), coords: case["coordinates"].clone() };
        judge(&b, &meta, l, verbose);
    })
}
