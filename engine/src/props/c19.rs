//! C19 — resource limits are diagnosed, not crashed into.
//!
//! Process-level check: the *real binary* runs once per case on generated files in a private scratch
//! directory, under `ulimit -v` 2 GiB, the default 8 MiB stack, a CPU-time limit (SIGXCPU) and a wall
//! safety net. The space is the finite grid  SITES x MAGNITUDES  and is enumerated completely:
//!   * depth / count sites   : 10^k and 2*10^k, k <= 4 (quick) / k <= 5 (thorough)
//!   * cycle sites           : cycle length 1..4
//!   * numeric-position sites: 0, 2^k-1, 2^k, 2^k+1 for k in {7,8,15,16,31,32,33,63,64,65}
//!                             (quick: a 12-value subset), 2^1000 and 2^(2^20)
//! Oracle per case: exit 0, or exit 1 with >= 1 `error:` line; never a signal, never exit 101,
//! never the time limit, never the memory cap; and for sites where the unbounded-integer meaning of
//! the program is cheap to state, a success must produce exactly that output (no silent wrap-around).
//! Violations are keyed `C19:<site>:<kind>` (input-side site + failure kind only).
use crate::refx::{pow2, Z};
use crate::stats::*;
use serde_json::{json, Value};
use std::collections::BTreeMap;
use std::io::{Read, Seek, SeekFrom};
use std::os::unix::process::{CommandExt, ExitStatusExt};
use rayon::prelude::*;
use std::sync::Mutex;

pub const ID: &str = "C19";
const MEM_KIB: u64 = 2 * 1024 * 1024;
const SIGXCPU: i32 = 24;
const SIGKILL: i32 = 9;

// ------------------------------------------------------------------------------------------------
// magnitudes

#[derive(Clone, Debug)]
pub enum Mag {
    /// nesting depth / element count
    Depth(usize),
    /// recursion cycle length
    Cycle(usize),
    /// operand value; `expr` is the text for positions that take an expression, `lit` a plain
    /// decimal literal (absent for 2^(2^20))
    Value { label: String, z: Z, expr: String, lit: Option<String> },
}

impl Mag {
    fn label(&self) -> String {
        match self {
            Mag::Depth(n) => format!("n={}", n),
            Mag::Cycle(n) => format!("len={}", n),
            Mag::Value { label, .. } => label.clone(),
        }
    }
    fn n(&self) -> usize {
        match self {
            Mag::Depth(n) | Mag::Cycle(n) => *n,
            _ => unreachable!(),
        }
    }
    fn z(&self) -> &Z {
        match self {
            Mag::Value { z, .. } => z,
            _ => unreachable!(),
        }
    }
    /// plain decimal text (None for magnitudes without one)
    fn lit(&self) -> Option<String> {
        match self {
            Mag::Value { lit, .. } => lit.clone(),
            _ => unreachable!(),
        }
    }
    /// text for a position that accepts an expression
    fn e(&self) -> &str {
        match self {
            Mag::Value { expr, .. } => expr,
            _ => unreachable!(),
        }
    }
    /// non-trivial by the stated rule (input side)
    fn nontrivial(&self) -> bool {
        match self {
            Mag::Depth(n) => *n >= 100,
            Mag::Cycle(_) => true,
            Mag::Value { z, .. } => *z == Z::from(0) || *z >= pow2(31) - 1,
        }
    }
}

#[derive(Clone, Copy, PartialEq, Eq, Debug)]
enum Ladder {
    Depth,
    Cycle,
    Value,
}

fn depth_ladder(thorough: bool) -> Vec<Mag> {
    // quick goes to 2*10^4: a recursion without a limit check needs about that depth to exhaust 8 MiB when its
    // frames are small (a dropped check on unary chains survives depth 2000)
    let kmax = if thorough { 5 } else { 4 };
    let mut v = vec![];
    for k in 0..=kmax {
        v.push(Mag::Depth(10usize.pow(k)));
        v.push(Mag::Depth(2 * 10usize.pow(k)));
    }
    v
}

fn cycle_ladder() -> Vec<Mag> {
    (1..=4).map(Mag::Cycle).collect()
}

fn value_ladder(thorough: bool) -> Vec<Mag> {
    let mut pts: Vec<(usize, i32)> = vec![];
    if thorough {
        for k in [7usize, 8, 15, 16, 31, 32, 33, 60, 61, 62, 63, 64, 65] {
            for d in [-1, 0, 1] {
                pts.push((k, d));
            }
        }
    } else {
        // 2^61 and 2^62: a count of bytes or hex digits whose bit count no longer fits the machine word
        pts = vec![(8, 0), (16, 0), (31, -1), (31, 0), (32, -1), (32, 0), (32, 1), (61, -1), (61, 0), (62, -1), (62, 0), (63, -1), (63, 0), (64, -1), (64, 0), (64, 1)];
    }
    let mut v = vec![Mag::Value { label: "0".into(), z: Z::from(0), expr: "0".into(), lit: Some("0".into()) }];
    for (k, d) in pts {
        let z = pow2(k) + d;
        let label = match d {
            -1 => format!("2^{}-1", k),
            0 => format!("2^{}", k),
            _ => format!("2^{}+1", k),
        };
        v.push(Mag::Value { label, expr: z.to_string(), lit: Some(z.to_string()), z });
    }
    let z = pow2(1000);
    v.push(Mag::Value { label: "2^1000".into(), expr: "(1 << 1000)".into(), lit: Some(z.to_string()), z });
    v.push(Mag::Value { label: "2^(2^20)".into(), expr: "(1 << (1 << 20))".into(), lit: None, z: pow2(1 << 20) });
    v
}

/// The kind under which a failure is keyed. Running out of time and running out of memory at one position are the same
/// finding — no magnitude limit is enforced there — and which of the two strikes first depends on how fast the loop
/// in between happens to be (a behaviour-preserving speed-up of the bit loops turns the one into the other).
fn key_kind(kind: &'static str) -> &'static str {
    match kind {
        "timeout" | "memcap" => "unbounded",
        k => k,
    }
}

fn ladder_of(l: Ladder, thorough: bool) -> Vec<Mag> {
    match l {
        Ladder::Depth => depth_ladder(thorough),
        Ladder::Cycle => cycle_ladder(),
        Ladder::Value => value_ladder(thorough),
    }
}

// ------------------------------------------------------------------------------------------------
// expected output (only where the unbounded-integer meaning is cheap to state)

#[derive(Clone, Debug)]
pub enum Expect {
    /// no statement about the output of a success
    None,
    Exact(Vec<u8>),
    /// `total_bits` bits, all zero except the listed positions (bit 0 = first emitted bit)
    Sparse { total_bits: Z, ones: Vec<Z> },
}

impl Expect {
    fn describe(&self) -> Value {
        match self {
            Expect::None => json!("exit 0, or exit 1 with an error diagnostic"),
            Expect::Exact(b) => {
                if b.len() <= 40 {
                    json!({"on_success_output_hex": hex(b)})
                } else {
                    json!({"on_success_output_len": b.len(), "on_success_output_head_hex": hex(&b[..16])})
                }
            }
            Expect::Sparse { total_bits, ones } => json!({"on_success_output_bits": total_bits.to_string(), "on_success_one_bits_at": ones.iter().map(|o| o.to_string()).collect::<Vec<_>>()}),
        }
    }
}

fn hex(b: &[u8]) -> String {
    b.iter().map(|x| format!("{:02x}", x)).collect()
}

fn z_to_u64(z: &Z) -> Option<u64> {
    u64::try_from(z).ok()
}

/// Compare the written binary output with the expectation; Some(description) on mismatch.
fn check_output(path: &std::path::Path, expect: &Expect) -> Option<String> {
    let len = std::fs::metadata(path).map(|m| m.len()).ok();
    match expect {
        Expect::None => None,
        Expect::Exact(b) => {
            let Some(len) = len else { return Some("exit 0 but no output file was written".into()) };
            if len != b.len() as u64 {
                return Some(format!("output has {} bytes, the program means {} bytes", len, b.len()));
            }
            let got = std::fs::read(path).unwrap_or_default();
            if &got != b {
                let at = got.iter().zip(b.iter()).position(|(x, y)| x != y).unwrap_or(0);
                return Some(format!("output differs at byte {}: got {:02x}, the program means {:02x}", at, got.get(at).copied().unwrap_or(0), b[at]));
            }
            None
        }
        Expect::Sparse { total_bits, ones } => {
            let Some(len) = len else { return Some("exit 0 but no output file was written".into()) };
            let want_bytes: Z = (total_bits + 7) / 8;
            if Z::from(len) != want_bytes {
                return Some(format!("output has {} bytes, the program means {} bits = {} bytes", len, total_bits, want_bytes));
            }
            let mut marks: BTreeMap<u64, u8> = BTreeMap::new();
            for o in ones {
                let byte = z_to_u64(&(o / 8)).expect("fits: file length matched");
                let bit = z_to_u64(&(o % 8)).unwrap() as u8;
                *marks.entry(byte).or_insert(0) |= 0x80 >> bit;
            }
            let Ok(mut f) = std::fs::File::open(path) else { return Some("output file unreadable".into()) };
            if len <= (4 << 20) {
                let mut all = vec![];
                let _ = f.read_to_end(&mut all);
                for (i, b) in all.iter().enumerate() {
                    let w = marks.get(&(i as u64)).copied().unwrap_or(0);
                    if *b != w {
                        return Some(format!("output byte {} is {:02x}, the program means {:02x}", i, b, w));
                    }
                }
            } else {
                for (i, w) in &marks {
                    let mut b = [0u8; 1];
                    if f.seek(SeekFrom::Start(*i)).is_err() || f.read_exact(&mut b).is_err() {
                        return Some("output file unreadable".into());
                    }
                    if b[0] != *w {
                        return Some(format!("output byte {} is {:02x}, the program means {:02x}", i, b[0], w));
                    }
                }
            }
            None
        }
    }
}

// ------------------------------------------------------------------------------------------------
// sites

pub struct Gen {
    files: Vec<(String, Vec<u8>)>,
    expect: Expect,
}

fn main_only(text: String, expect: Expect) -> Option<Gen> {
    Some(Gen { files: vec![("main.asm".into(), text.into_bytes())], expect })
}

type GenFn = Box<dyn Fn(&Mag) -> Option<Gen> + Send + Sync>;

pub struct Site {
    name: String,
    ladder: Ladder,
    /// human-readable pattern of the generated program (for `what`, evidence and reproduction)
    template: String,
    gen: GenFn,
}

fn site(name: &str, ladder: Ladder, template: &str, gen: impl Fn(&Mag) -> Option<Gen> + Send + Sync + 'static) -> Site {
    Site { name: name.into(), ladder, template: template.into(), gen: Box::new(gen) }
}

fn rep(s: &str, n: usize) -> String {
    s.repeat(n)
}

fn exact(b: &[u8]) -> Expect {
    Expect::Exact(b.to_vec())
}

/// n bits, the last one set (value 1 in an n-bit field)
fn one_in_field(n: &Z) -> Expect {
    if *n <= Z::from(0) {
        Expect::None
    } else {
        Expect::Sparse { total_bits: n.clone(), ones: vec![n - 1] }
    }
}

fn bankdef(fields: &str) -> String {
    format!("#bankdef a {{\n{}\n}}\n", fields)
}

/// smallest multiple of n that is >= 8 (n >= 1)
fn align_up_8(n: &Z) -> Z {
    let q: Z = (Z::from(8) + n - 1) / n;
    q * n
}

struct BinOpSite {
    name: &'static str,
    sym: &'static str,
    leaf: &'static str,
    prefix: &'static str,
    suffix: &'static str,
    /// expected bytes of a success with `n` operators (left-nested chain)
    expect: fn(usize) -> Expect,
}

fn binops() -> Vec<BinOpSite> {
    fn b(x: u8) -> Expect {
        Expect::Exact(vec![x])
    }
    vec![
        BinOpSite { name: "add", sym: "+", leaf: "0", prefix: "#d8 ", suffix: "", expect: |_| b(0) },
        BinOpSite { name: "sub", sym: "-", leaf: "0", prefix: "#d8 ", suffix: "", expect: |_| b(0) },
        BinOpSite { name: "mul", sym: "*", leaf: "1", prefix: "#d8 ", suffix: "", expect: |_| b(1) },
        BinOpSite { name: "div", sym: "/", leaf: "1", prefix: "#d8 ", suffix: "", expect: |_| b(1) },
        BinOpSite { name: "mod", sym: "%", leaf: "1", prefix: "#d8 ", suffix: "", expect: |_| b(0) },
        BinOpSite { name: "shl", sym: "<<", leaf: "0", prefix: "#d8 1 << ", suffix: "", expect: |_| b(1) },
        BinOpSite { name: "shr", sym: ">>", leaf: "0", prefix: "#d8 1 >> ", suffix: "", expect: |_| b(1) },
        BinOpSite { name: "and", sym: "&", leaf: "1", prefix: "#d8 ", suffix: "", expect: |_| b(1) },
        BinOpSite { name: "or", sym: "|", leaf: "1", prefix: "#d8 ", suffix: "", expect: |_| b(1) },
        BinOpSite { name: "xor", sym: "^", leaf: "1", prefix: "#d8 ", suffix: "", expect: |n| b(((n + 1) % 2) as u8) },
        BinOpSite {
            name: "concat",
            sym: "@",
            leaf: "0x1",
            prefix: "#d ",
            suffix: "",
            expect: |n| {
                let nib = n + 1;
                let mut v = vec![0x11u8; nib / 2];
                if nib % 2 == 1 {
                    v.push(0x10);
                }
                Expect::Exact(v)
            },
        },
        // comparisons chain a boolean into an integer comparison: the meaning of a success is not stated here
        BinOpSite { name: "eq", sym: "==", leaf: "0", prefix: "#d8 ", suffix: " ? 1 : 0", expect: |_| Expect::None },
        BinOpSite { name: "ne", sym: "!=", leaf: "0", prefix: "#d8 ", suffix: " ? 1 : 0", expect: |_| Expect::None },
        BinOpSite { name: "lt", sym: "<", leaf: "0", prefix: "#d8 ", suffix: " ? 1 : 0", expect: |_| Expect::None },
        BinOpSite { name: "le", sym: "<=", leaf: "0", prefix: "#d8 ", suffix: " ? 1 : 0", expect: |_| Expect::None },
        BinOpSite { name: "gt", sym: ">", leaf: "0", prefix: "#d8 ", suffix: " ? 1 : 0", expect: |_| Expect::None },
        BinOpSite { name: "ge", sym: ">=", leaf: "0", prefix: "#d8 ", suffix: " ? 1 : 0", expect: |_| Expect::None },
        BinOpSite { name: "land", sym: "&&", leaf: "true", prefix: "#d8 ", suffix: " ? 1 : 0", expect: |_| b(1) },
        BinOpSite { name: "lor", sym: "||", leaf: "false", prefix: "#d8 ", suffix: " ? 1 : 0", expect: |_| b(0) },
    ]
}

const INC_BYTES: &[u8] = &[1, 2, 3, 4];

pub fn sites() -> Vec<Site> {
    use Ladder::*;
    let mut v: Vec<Site> = vec![];

    // ---- nesting of bracket forms and unary chains -------------------------------------------
    v.push(site("paren-nesting", Depth, "#d8 `(`*n 1 `)`*n", |m| {
        let n = m.n();
        main_only(format!("#d8 {}1{}\n", rep("(", n), rep(")", n)), exact(&[1]))
    }));
    v.push(site("brace-block-nesting", Depth, "#d8 `{`*n 1 `}`*n", |m| {
        let n = m.n();
        main_only(format!("#d8 {}1{}\n", rep("{", n), rep("}", n)), exact(&[1]))
    }));
    v.push(site("unary-neg-chain", Depth, "#d16 `- `*n 1", |m| {
        let n = m.n();
        main_only(format!("#d16 {}1\n", rep("- ", n)), exact(if n % 2 == 0 { &[0, 1] } else { &[0xff, 0xff] }))
    }));
    v.push(site("unary-not-chain", Depth, "#d16 `! `*n 1", |m| {
        let n = m.n();
        main_only(format!("#d16 {}1\n", rep("! ", n)), exact(if n % 2 == 0 { &[0, 1] } else { &[0xff, 0xfe] }))
    }));

    // ---- binary operator chains ---------------------------------------------------------------
    for op in binops() {
        let (sym, leaf, prefix, suffix, expect) = (op.sym, op.leaf, op.prefix, op.suffix, op.expect);
        v.push(site(
            &format!("binL-{}", op.name),
            Depth,
            &format!("{}{} ` {} {}`*n{}   (left-nested, no parentheses)", prefix, leaf, sym, leaf, suffix),
            move |m| {
                let n = m.n();
                let mut s = String::with_capacity(16 + n * (sym.len() + leaf.len() + 2));
                s.push_str(prefix);
                s.push_str(leaf);
                for _ in 0..n {
                    s.push(' ');
                    s.push_str(sym);
                    s.push(' ');
                    s.push_str(leaf);
                }
                s.push_str(suffix);
                s.push('\n');
                main_only(s, expect(n))
            },
        ));
    }
    for op in binops().into_iter().filter(|o| ["add", "concat", "lt", "land", "shl"].contains(&o.name)) {
        let (sym, leaf, prefix, suffix) = (op.sym, op.leaf, op.prefix, op.suffix);
        v.push(site(
            &format!("binR-{}", op.name),
            Depth,
            &format!("{}`{} {} (`*n {} `)`*n{}   (right-nested)", prefix, leaf, sym, leaf, suffix),
            move |m| {
                let n = m.n();
                let mut s = String::new();
                s.push_str(prefix);
                for _ in 0..n {
                    s.push_str(leaf);
                    s.push(' ');
                    s.push_str(sym);
                    s.push_str(" (");
                }
                s.push_str(leaf);
                s.push_str(&rep(")", n));
                s.push_str(suffix);
                s.push('\n');
                main_only(s, Expect::None)
            },
        ));
    }
    v.push(site("binR-assign", Depth, "#fn f() => { `a = `*n 1, a } / #d8 f()", |m| {
        let n = m.n();
        main_only(format!("#fn f() => {{ {}1, a }}\n#d8 f()\n", rep("a = ", n)), Expect::None)
    }));

    // ---- ternaries, calls, slices ---------------------------------------------------------------
    v.push(site("ternary-then-nesting", Depth, "#d8 `true ? `*n 1 ` : 0`*n", |m| {
        let n = m.n();
        main_only(format!("#d8 {}1{}\n", rep("true ? ", n), rep(" : 0", n)), exact(&[1]))
    }));
    v.push(site("ternary-else-chain", Depth, "#d8 `false ? 0 : `*n 1", |m| {
        let n = m.n();
        main_only(format!("#d8 {}1\n", rep("false ? 0 : ", n)), exact(&[1]))
    }));
    v.push(site("call-nesting", Depth, "#d8 `le(`*n 0x01 `)`*n", |m| {
        let n = m.n();
        main_only(format!("#d8 {}0x01{}\n", rep("le(", n), rep(")", n)), exact(&[1]))
    }));
    v.push(site("slice-index-nesting", Depth, "#d8 `7[`*n 7 `:0]`*n", |m| {
        let n = m.n();
        main_only(format!("#d8 {}7{}\n", rep("7[", n), rep(":0]", n)), exact(&[7]))
    }));
    v.push(site("slice-operand-nesting", Depth, "#d8 `(`*n 0xa5 `[7:0])`*n", |m| {
        let n = m.n();
        main_only(format!("#d8 {}0xa5{}\n", rep("(", n), rep("[7:0])", n)), exact(&[0xa5]))
    }));

    // ---- directive / block nesting ----------------------------------------------------------------
    v.push(site("if-nesting", Depth, "`#if true {`*n / #d8 1 / `}`*n", |m| {
        let n = m.n();
        main_only(format!("{}#d8 1\n{}", rep("#if true {\n", n), rep("}\n", n)), exact(&[1]))
    }));
    v.push(site("elif-chain", Depth, "#if false {} `#elif false {}`*n #else { #d8 1 }", |m| {
        let n = m.n();
        main_only(format!("#if false {{\n}}\n{}#else {{\n#d8 1\n}}\n", rep("#elif false {\n}\n", n)), exact(&[1]))
    }));
    v.push(site("asm-block-nesting", Depth, "#ruledef { n => 0x01 } / `#d8 asm {`*n / n / `}`*n", |m| {
        let n = m.n();
        main_only(format!("#ruledef {{\n n => 0x01\n}}\n{}n\n{}", rep("#d8 asm {\n", n), rep("}\n", n)), if n == 1 { exact(&[1]) } else { Expect::None })
    }));
    v.push(site("include-depth", Depth, "main.asm includes f1.asm includes ... f<n>.asm = `#d8 1`", |m| {
        let n = m.n();
        let mut files = vec![("main.asm".to_string(), b"#include \"f1.asm\"\n".to_vec())];
        for i in 1..n {
            files.push((format!("f{}.asm", i), format!("#include \"f{}.asm\"\n", i + 1).into_bytes()));
        }
        files.push((format!("f{}.asm", n), b"#d8 1\n".to_vec()));
        Some(Gen { files, expect: exact(&[1]) })
    }));
    v.push(site("fn-call-chain", Depth, "#fn f0() => f1() ... #fn f<n>() => 1 / #d8 f0()", |m| {
        let n = m.n();
        let mut s = String::new();
        for i in 0..n {
            s.push_str(&format!("#fn f{}() => f{}()\n", i, i + 1));
        }
        s.push_str(&format!("#fn f{}() => 1\n#d8 f0()\n", n));
        main_only(s, Expect::None)
    }));
    v.push(site("asm-rule-chain", Depth, "#ruledef { r0 => asm { r1 } ... r<n> => 0x01 } / r0", |m| {
        let n = m.n();
        let mut s = String::from("#ruledef {\n");
        for i in 0..n {
            s.push_str(&format!(" r{} => asm {{ r{} }}\n", i, i + 1));
        }
        s.push_str(&format!(" r{} => 0x01\n}}\nr0\n", n));
        main_only(s, Expect::None)
    }));
    v.push(site("subrule-depth", Depth, "#subruledef tt { x{q: tt} => q / y => 0x01 } #ruledef { a {q: tt} => q } / a `x `*n y", |m| {
        let n = m.n();
        main_only(format!("#subruledef tt {{\n x{{q: tt}} => q\n y => 0x01\n}}\n#ruledef {{\n a {{q: tt}} => q\n}}\na {}y\n", rep("x ", n)), Expect::None)
    }));

    // ---- counts / lengths ---------------------------------------------------------------------------
    v.push(site("literal-hex-digits", Depth, "#d 0x`1`*n", |m| {
        let n = m.n();
        let mut b = vec![0x11u8; n / 2];
        if n % 2 == 1 {
            b.push(0x10);
        }
        main_only(format!("#d 0x{}\n", rep("1", n)), Expect::Exact(b))
    }));
    v.push(site("literal-dec-digits", Depth, "#d8 1`0`*(n-1) > 1 ? 0x55 : 0xaa", |m| {
        let n = m.n();
        main_only(format!("#d8 1{} > 1 ? 0x55 : 0xaa\n", rep("0", n - 1)), exact(&[if n >= 2 { 0x55 } else { 0xaa }]))
    }));
    v.push(site("string-length", Depth, "#d \"`a`*n\"", |m| {
        let n = m.n();
        main_only(format!("#d \"{}\"\n", rep("a", n)), Expect::Exact(vec![0x61; n]))
    }));
    v.push(site("data-elements", Depth, "#d8 1`, 1`*(n-1)", |m| {
        let n = m.n();
        main_only(format!("#d8 1{}\n", rep(", 1", n - 1)), Expect::Exact(vec![1; n]))
    }));
    v.push(site("label-count", Depth, "l0: / l1: / ... l<n-1>: / #d8 1", |m| {
        let n = m.n();
        let mut s = String::new();
        for i in 0..n {
            s.push_str(&format!("l{}:\n", i));
        }
        s.push_str("#d8 1\n");
        main_only(s, exact(&[1]))
    }));

    // ---- recursion cycles -------------------------------------------------------------------------------
    v.push(site("cycle-fn", Cycle, "#fn f0(x) => f1(x) ... #fn f<len-1>(x) => f0(x) / #d8 f0(1)", |m| {
        let n = m.n();
        let mut s = String::new();
        for i in 0..n {
            s.push_str(&format!("#fn f{}(x) => f{}(x)\n", i, (i + 1) % n));
        }
        s.push_str("#d8 f0(1)\n");
        main_only(s, Expect::None)
    }));
    v.push(site("cycle-asm-rule", Cycle, "#ruledef { r0 => asm { r1 } ... r<len-1> => asm { r0 } } / r0", |m| {
        let n = m.n();
        let mut s = String::from("#ruledef {\n");
        for i in 0..n {
            s.push_str(&format!(" r{} => asm {{ r{} }}\n", i, (i + 1) % n));
        }
        s.push_str("}\nr0\n");
        main_only(s, Expect::None)
    }));
    // the same cycle entered from an asm block that is the value of a data element / of a constant (the recursion
    // counter then starts from another depth)
    v.push(site("cycle-asm-rule-from-data", Cycle, "#ruledef { r0 => asm { r1 } ... } / #d asm { r0 }", |m| {
        let n = m.n();
        let mut s = String::from("#ruledef {\n");
        for i in 0..n {
            s.push_str(&format!(" r{} => asm {{ r{} }}\n", i, (i + 1) % n));
        }
        s.push_str("}\n#d asm { r0 }\n");
        main_only(s, Expect::None)
    }));
    v.push(site("cycle-asm-rule-from-constant", Cycle, "#ruledef { r0 => asm { r1 } ... } / v = asm { r0 } / #d8 v", |m| {
        let n = m.n();
        let mut s = String::from("#ruledef {\n");
        for i in 0..n {
            s.push_str(&format!(" r{} => asm {{ r{} }}\n", i, (i + 1) % n));
        }
        s.push_str("}\nv = asm { r0 }\n#d8 v\n");
        main_only(s, Expect::None)
    }));
    v.push(site("cycle-subrule", Cycle, "#subruledef ta { {q: tb} => q } ... #subruledef t<last> { {q: ta} => q } #ruledef { a {q: ta} => q } / a 1", |m| {
        let n = m.n();
        let names = ["ta", "tb", "tc", "td"];
        let mut s = String::new();
        for i in 0..n {
            s.push_str(&format!("#subruledef {} {{\n {{q: {}}} => q\n}}\n", names[i], names[(i + 1) % n]));
        }
        s.push_str("#ruledef {\n a {q: ta} => q\n}\na 1\n");
        main_only(s, Expect::None)
    }));
    v.push(site("cycle-include", Cycle, "main.asm includes c1.asm ... includes main.asm", |m| {
        let n = m.n();
        let name = |i: usize| if i % n == 0 { "main.asm".to_string() } else { format!("c{}.asm", i % n) };
        let files = (0..n).map(|i| (name(i), format!("#include \"{}\"\n#d8 1\n", name(i + 1)).into_bytes())).collect();
        Some(Gen { files, expect: Expect::None })
    }));
    // the files of the cycle live in a sub-directory: every name is relative to the including file
    v.push(site("cycle-include-in-subdirectory", Cycle, "main.asm includes lib/c1.asm, which includes c2.asm ... the last one includes c1.asm", |m| {
        let n = m.n();
        let mut files = vec![("main.asm".to_string(), b"#include \"lib/c1.asm\"\n#d8 1\n".to_vec())];
        for i in 1..=n {
            files.push((format!("lib/c{}.asm", i), format!("#include \"c{}.asm\"\n#d8 1\n", i % n + 1).into_bytes()));
        }
        Some(Gen { files, expect: Expect::None })
    }));
    v.push(site("cycle-include-through-parent-directory", Cycle, "main.asm includes lib/c1.asm ... the last one includes ../main.asm", |m| {
        let n = m.n();
        let mut files = vec![("main.asm".to_string(), b"#include \"lib/c1.asm\"\n#d8 1\n".to_vec())];
        for i in 1..=n {
            let next = if i == n { "../main.asm".to_string() } else { format!("c{}.asm", i + 1) };
            files.push((format!("lib/c{}.asm", i), format!("#include \"{}\"\n#d8 1\n", next).into_bytes()));
        }
        Some(Gen { files, expect: Expect::None })
    }));
    v.push(site("cycle-const", Cycle, "c0 = c1 + 1 ... c<len-1> = c0 + 1 / #d8 c0", |m| {
        let n = m.n();
        let mut s = String::new();
        for i in 0..n {
            s.push_str(&format!("c{} = c{} + 1\n", i, (i + 1) % n));
        }
        s.push_str("#d8 c0\n");
        main_only(s, Expect::None)
    }));

    // ---- numeric positions ----------------------------------------------------------------------------------
    v.push(site("shl-count", Value, "#d8 (1 << N) > 0 ? 0x55 : 0xaa", |m| main_only(format!("#d8 (1 << {}) > 0 ? 0x55 : 0xaa\n", m.e()), exact(&[0x55]))));
    v.push(site("shl-shr-identity", Value, "#d64 (1 << N) >> N", |m| main_only(format!("#d64 (1 << {}) >> {}\n", m.e(), m.e()), exact(&[0, 0, 0, 0, 0, 0, 0, 1]))));
    v.push(site("shr-count", Value, "#d8 (1 >> N) == 0 ? 0x55 : 0xaa", |m| {
        main_only(format!("#d8 (1 >> {}) == 0 ? 0x55 : 0xaa\n", m.e()), exact(&[if *m.z() >= Z::from(1) { 0x55 } else { 0xaa }]))
    }));
    v.push(site("div-divisor", Value, "#d8 (1 / N) == 0 ? 0x55 : 0xaa", |m| {
        // 1 / N = 0 for N >= 2; N = 0 has no value
        main_only(format!("#d8 (1 / {}) == 0 ? 0x55 : 0xaa\n", m.e()), if *m.z() >= Z::from(2) { exact(&[0x55]) } else { Expect::None })
    }));
    v.push(site("mod-divisor", Value, "#d8 (1 % N) == 1 ? 0x55 : 0xaa", |m| {
        main_only(format!("#d8 (1 % {}) == 1 ? 0x55 : 0xaa\n", m.e()), if *m.z() >= Z::from(2) { exact(&[0x55]) } else { Expect::None })
    }));
    v.push(site("slice-hi", Value, "#d8 (0xa5[N:0])[7:0]", |m| {
        main_only(format!("#d8 (0xa5[{}:0])[7:0]\n", m.e()), if *m.z() >= Z::from(7) { exact(&[0xa5]) } else { Expect::None })
    }));
    v.push(site("slice-hi-lo", Value, "#d8 0b1010010 @ 0xa5[N:N]", |m| {
        let bit = match z_to_u64(m.z()) {
            Some(k) if k < 8 => (0xa5u8 >> k) & 1,
            _ => 0,
        };
        main_only(format!("#d8 0b1010010 @ 0xa5[{}:{}]\n", m.e(), m.e()), exact(&[0xa4 | bit]))
    }));
    // the same bounds in an unsized `#d`, where the width of the element is estimated before it is evaluated
    v.push(site("unsized-data-slice-hi", Value, "#d 0xa5[N:0]", |m| main_only(format!("#d 0xa5[{}:0]\n", m.e()), Expect::None)));
    v.push(site("unsized-data-slice-hi-lo", Value, "#d 0xa5[N:N] @ 0b1010010", |m| {
        let bit = match z_to_u64(m.z()) {
            Some(k) if k < 8 => (0xa5u8 >> k) & 1,
            _ => 0,
        };
        main_only(format!("#d 0xa5[{}:{}] @ 0b1010010\n", m.e(), m.e()), exact(&[(bit << 7) | 0x52]))
    }));
    v.push(site("unsized-data-concat-of-slices", Value, "#d 0xa5[N:0] @ 0xa5[N:0]", |m| main_only(format!("#d 0xa5[{}:0] @ 0xa5[{}:0]\n", m.e(), m.e()), Expect::None)));
    // ... and in a branch that is only SIZED, never evaluated (so the answer comes at once at every magnitude)
    v.push(site("unsized-data-untaken-concat-of-slices", Value, "#d 1 == 1 ? 0x55 : (0xa5[N:0] @ 0xa5[N:0])", |m| main_only(format!("#d 1 == 1 ? 0x55 : (0xa5[{}:0] @ 0xa5[{}:0])\n", m.e(), m.e()), exact(&[0x55]))));
    v.push(site("unsized-data-untaken-slice", Value, "#d 1 == 1 ? 0x55 : 0xa5[N:0]", |m| main_only(format!("#d 1 == 1 ? 0x55 : 0xa5[{}:0]\n", m.e()), exact(&[0x55]))));
    v.push(site("backtick-width", Value, "#d8 (0xa5`N)[7:0]", |m| {
        main_only(format!("#d8 (0xa5`{})[7:0]\n", m.e()), if *m.z() >= Z::from(8) { exact(&[0xa5]) } else { Expect::None })
    }));
    for ty in ["u", "s", "i"] {
        v.push(site(&format!("type-{}N", ty), Value, &format!("#ruledef {{ t {{x: {}N}} => x }} / t 1", ty), move |m| {
            let Mag::Value { lit: Some(lit), z, .. } = m else { return None };
            // 1 is representable in uN for N >= 1 and in sN/iN for N >= 2
            let exp = if *z >= Z::from(2) { one_in_field(z) } else { Expect::None };
            main_only(format!("#ruledef {{\n t {{x: {}{}}} => x\n}}\nt 1\n", ty, lit), exp)
        }));
    }
    v.push(site("data-width", Value, "#dN 1", |m| {
        let Mag::Value { lit: Some(lit), z, .. } = m else { return None };
        let exp = if *z >= Z::from(2) { one_in_field(z) } else { Expect::None };
        main_only(format!("#d{} 1\n", lit), exp)
    }));
    v.push(site("res", Value, "#res N / #d8 1", |m| {
        let z = m.z();
        main_only(format!("#res {}\n#d8 1\n", m.e()), Expect::Sparse { total_bits: z * 8 + 8, ones: vec![z * 8 + 7] })
    }));
    v.push(site("addr", Value, "#addr N / #d8 1", |m| {
        let z = m.z();
        main_only(format!("#addr {}\n#d8 1\n", m.e()), Expect::Sparse { total_bits: z * 8 + 8, ones: vec![z * 8 + 7] })
    }));
    v.push(site("align", Value, "#d8 1 / #align N / #d8 2", |m| {
        let z = m.z();
        let exp = if *z >= Z::from(1) {
            let p = align_up_8(z);
            Expect::Sparse { total_bits: &p + 8, ones: vec![Z::from(7), &p + 6] }
        } else {
            Expect::None
        };
        main_only(format!("#d8 1\n#align {}\n#d8 2\n", m.e()), exp)
    }));
    v.push(site("bankdef-bits", Value, "#bankdef a { bits = N, addr = 0, outp = 0 } / x: / #d8 1", |m| {
        main_only(format!("{}x:\n#d8 1\n", bankdef(&format!(" bits = {}\n addr = 0\n outp = 0", m.e()))), Expect::None)
    }));
    v.push(site("bankdef-addr", Value, "#bankdef a { bits = 8, addr = N, outp = 0 } / x: / #d1008 x", |m| {
        let z = m.z();
        let exp = if *z < pow2(1007) {
            let (_, mut b) = z.to_bytes_be();
            let mut full = vec![0u8; 126 - b.len()];
            full.append(&mut b);
            Expect::Exact(full)
        } else {
            Expect::None
        };
        main_only(format!("{}x:\n#d1008 x\n", bankdef(&format!(" bits = 8\n addr = {}\n outp = 0", m.e()))), exp)
    }));
    v.push(site("bankdef-size", Value, "#bankdef a { bits = 8, addr = 0, size = N, outp = 0 } / #d8 1", |m| {
        let exp = if *m.z() >= Z::from(1) { exact(&[1]) } else { Expect::None };
        main_only(format!("{}#d8 1\n", bankdef(&format!(" bits = 8\n addr = 0\n size = {}\n outp = 0", m.e()))), exp)
    }));
    v.push(site("bankdef-size-fill", Value, "#bankdef a { bits = 8, addr = 0, size = N, outp = 0, fill = true } / #d8 1", |m| {
        let z = m.z();
        let exp = if *z >= Z::from(1) { Expect::Sparse { total_bits: z * 8, ones: vec![Z::from(7)] } } else { Expect::None };
        main_only(format!("{}#d8 1\n", bankdef(&format!(" bits = 8\n addr = 0\n size = {}\n outp = 0\n fill = true", m.e()))), exp)
    }));
    // a bank whose address unit is wider than a byte: its size in bits is units x unit width, and that is what has to
    // fit (the unit count is N << 24, so that the ladder reaches the sizes between 2^56 and 2^64 bits); a second bank makes the size take part in sums with output positions
    v.push(site("bankdef-size-wide-unit-two-banks", Value, "#bankdef a { bits = 256, addr = 0, size = N << 24, outp = 8 * 0x1_0000_0000 } / #bankdef b { bits = 8, addr = 0, size = 1, outp = 0 } / #d8 1", |m| {
        main_only(format!("{}#bankdef b {{\n bits = 8\n addr = 0\n size = 1\n outp = 0\n}}\n#d8 1\n", bankdef(&format!(" bits = 256\n addr = 0\n size = {} << 24\n outp = 8 * 0x1_0000_0000", m.e()))), Expect::None)
    }));
    v.push(site("bankdef-addr_end-wide-unit-two-banks", Value, "#bankdef a { bits = 256, addr = 0, addr_end = N << 24, outp = 8 * 0x1_0000_0000 } / #bankdef b { bits = 8, addr = 0, size = 1, outp = 0 } / #d8 1", |m| {
        main_only(format!("{}#bankdef b {{\n bits = 8\n addr = 0\n size = 1\n outp = 0\n}}\n#d8 1\n", bankdef(&format!(" bits = 256\n addr = 0\n addr_end = {} << 24\n outp = 8 * 0x1_0000_0000", m.e()))), Expect::None)
    }));
    v.push(site("bankdef-addr_end", Value, "#bankdef a { bits = 8, addr = 0, addr_end = N, outp = 0 } / #d8 1", |m| {
        let exp = if *m.z() >= Z::from(1) { exact(&[1]) } else { Expect::None };
        main_only(format!("{}#d8 1\n", bankdef(&format!(" bits = 8\n addr = 0\n addr_end = {}\n outp = 0", m.e()))), exp)
    }));
    // the bank's size is addr_end - addr: an end below the start (N > 0x100) is a magnitude the word cannot hold
    v.push(site("bankdef-addr-above-addr_end", Value, "#bankdef a { bits = 8, addr = N, addr_end = 0x100, outp = 0 } / #d8 1", |m| {
        let exp = if *m.z() < Z::from(0x100) { exact(&[1]) } else { Expect::None };
        main_only(format!("{}#d8 1\n", bankdef(&format!(" bits = 8\n addr = {}\n addr_end = 0x100\n outp = 0", m.e()))), exp)
    }));
    v.push(site("bankdef-negative-addr-with-addr_end", Value, "#bankdef a { bits = 8, addr = -N, addr_end = 0x100, outp = 0 } / #d8 1", |m| {
        main_only(format!("{}#d8 1\n", bankdef(&format!(" bits = 8\n addr = -{}\n addr_end = 0x100\n outp = 0", m.e()))), Expect::None)
    }));
    v.push(site("bankdef-outp", Value, "#bankdef a { bits = 8, addr = 0, outp = N } / #d8 1", |m| {
        let z = m.z();
        main_only(format!("{}#d8 1\n", bankdef(&format!(" bits = 8\n addr = 0\n outp = {}", m.e()))), Expect::Sparse { total_bits: z + 8, ones: vec![z + 7] })
    }));
    v.push(site("bankdef-labelalign", Value, "#bankdef a { bits = 8, addr = 0, outp = 0, labelalign = N } / #d8 1 / x: / #d8 2", |m| {
        let z = m.z();
        let exp = if *z >= Z::from(1) {
            let p = align_up_8(z);
            Expect::Sparse { total_bits: &p + 8, ones: vec![Z::from(7), &p + 6] }
        } else {
            Expect::None
        };
        main_only(format!("{}#d8 1\nx:\n#d8 2\n", bankdef(&format!(" bits = 8\n addr = 0\n outp = 0\n labelalign = {}", m.e()))), exp)
    }));
    // magnitudes given on the command line: the digit-group size of the two listing formats, the iteration budget
    for fmt in ["annotated", "tcgame"] {
        v.push(site(&format!("format-{}-group", fmt), Value, &format!("#d8 1, 2, 3 assembled with -f {},group:N", fmt), move |m| {
            let lit = m.lit()?;
            Some(Gen {
                files: vec![
                    ("main.asm".into(), b"#d8 1, 2, 3\n".to_vec()),
                    ("ARGV".into(), format!("main.asm\n-q\n--color=off\n-f\n{},group:{}\n-o\nout.bin\n", fmt, lit).into_bytes()),
                ],
                expect: Expect::None,
            })
        }));
    }
    v.push(site("iteration-budget", Value, "x = y + 1 / y = 2 / #d8 x assembled with --iters=N", |m| {
        let lit = m.lit()?;
        Some(Gen {
            files: vec![
                ("main.asm".into(), b"x = y + 1\ny = 2\n#d8 x\n".to_vec()),
                ("ARGV".into(), format!("main.asm\n-q\n--color=off\n--iters={}\n-f\nbinary\n-o\nout.bin\n", lit).into_bytes()),
            ],
            expect: Expect::None,
        })
    }));
    // include functions: f.bin = 01 02 03 04, fb.txt = "0101", fh.txt = "a5a5" (4 units each)
    for (func, file, content) in [("incbin", "f.bin", INC_BYTES), ("incbinstr", "fb.txt", b"0101" as &[u8]), ("inchexstr", "fh.txt", b"a5a5" as &[u8])] {
        let mk = move |text: String, expect: Expect| Some(Gen { files: vec![("main.asm".into(), text.into_bytes()), (file.to_string(), content.to_vec())], expect });
        v.push(site(&format!("{}-start", func), Value, &format!("#d8 0x55 / #d {}(\"{}\", N)   ({} holds 4 units)", func, file, file), move |m| {
            // a range starting at or after the end of the file contains nothing: a success may emit the marker only
            let exp = if *m.z() >= Z::from(4) { exact(&[0x55]) } else { Expect::None };
            mk(format!("#d8 0x55\n#d {}(\"{}\", {})\n", func, file, m.e()), exp)
        }));
        v.push(site(&format!("{}-len-from0", func), Value, &format!("#d8 0x55 / #d {}(\"{}\", 0, N)", func, file), move |m| mk(format!("#d8 0x55\n#d {}(\"{}\", 0, {})\n", func, file, m.e()), Expect::None)));
        v.push(site(&format!("{}-len-from1", func), Value, &format!("#d8 0x55 / #d {}(\"{}\", 1, N)", func, file), move |m| mk(format!("#d8 0x55\n#d {}(\"{}\", 1, {})\n", func, file, m.e()), Expect::None)));
    }
    v
}

// ------------------------------------------------------------------------------------------------
// process runner

#[derive(Clone, Debug)]
pub struct ProcObs {
    code: Option<i32>,
    signal: Option<i32>,
    wall_killed: bool,
    error_lines: usize,
    alloc_failure: bool,
    stderr_head: String,
    wall_s: f64,
    /// CPU seconds seen at the last /proc probe (0 for short runs); informative only
    cpu_s_seen: f64,
}

struct Limits {
    cpu_s: u64,
    wall_s: u64,
}

fn limits(thorough: bool) -> Limits {
    // VERIF_C19_CPU_S overrides the CPU limit (measurement runs only; the evidence records the value used)
    // 5 s in both tiers: on the unchanged tree every case that ends by itself needs < 3 s of CPU and every
    // linear bit-by-bit loop at the ladder's next magnitude (2^31-1) needs > 8.5 s, so the verdict of no case
    // sits within a factor 1.7 of the limit (10 s / 20 s would cut through the 9 s, 15 s, 17 s and 19 s
    // cases of the `align`, `outp`, slice and width loops and make those verdicts depend on machine load)
    let _ = thorough;
    let default = 5;
    let cpu_s = std::env::var("VERIF_C19_CPU_S").ok().and_then(|v| v.parse().ok()).unwrap_or(default);
    // the CPU limit is the verdict-relevant one (independent of machine load); the wall net and the
    // sleep detector only catch a process that stops consuming CPU
    Limits { cpu_s, wall_s: 15 * cpu_s }
}

impl Limits {
    /// the budget grows with the size of the input: 1 s per 100 000 input bytes on top of the base
    fn for_input(&self, bytes: usize) -> Limits {
        let cpu_s = self.cpu_s + (bytes / 100_000) as u64;
        Limits { cpu_s, wall_s: 15 * cpu_s }
    }
}

fn real_bin() -> String {
    std::env::var("VERIF_REAL_BIN").unwrap_or_else(|_| "/verif/.build/bin-target/release/customasm".into())
}

fn scratch_root() -> String {
    std::env::var("VERIF_SCRATCH").unwrap_or_else(|_| "/verif/.build/scratch".into())
}

const ARGV: [&str; 7] = ["main.asm", "-q", "--color=off", "-f", "binary", "-o", "out.bin"];

fn shell_line(lim: &Limits) -> String {
    format!("ulimit -v {} && ulimit -S -t {} && exec \"$0\" \"$@\"", MEM_KIB, lim.cpu_s)
}

fn write_files(dir: &std::path::Path, files: &[(String, Vec<u8>)]) -> std::io::Result<()> {
    std::fs::create_dir_all(dir)?;
    for (n, c) in files {
        if let Some(parent) = dir.join(n).parent() {
            std::fs::create_dir_all(parent)?;
        }
        std::fs::write(dir.join(n), c)?;
    }
    Ok(())
}

/// the command line of a case: the fixed one, unless the site wrote its own (file `ARGV`, one argument per line)
fn argv_of(dir: &std::path::Path) -> Vec<String> {
    match std::fs::read_to_string(dir.join("ARGV")) {
        Ok(t) => t.lines().map(|l| l.to_string()).collect(),
        Err(_) => ARGV.iter().map(|a| a.to_string()).collect(),
    }
}

fn run_process(dir: &std::path::Path, lim: &Limits) -> Result<ProcObs, String> {
    let out = std::fs::File::create(dir.join("stdout.txt")).map_err(|e| e.to_string())?;
    let err = std::fs::File::create(dir.join("stderr.txt")).map_err(|e| e.to_string())?;
    let t0 = std::time::Instant::now();
    let mut child = std::process::Command::new("sh")
        .arg("-c")
        .arg(shell_line(lim))
        .arg(real_bin())
        .args(argv_of(dir))
        .current_dir(dir)
        .env("RUST_BACKTRACE", "0")
        .stdin(std::process::Stdio::null())
        .stdout(out)
        .stderr(err)
        .process_group(0)
        .spawn()
        .map_err(|e| format!("spawn: {}", e))?;
    let pid = child.id();
    let mut wall_killed = false;
    let mut nap = 1u64;
    let mut last_probe = std::time::Instant::now();
    let mut last_progress = std::time::Instant::now();
    let mut last_ticks = u64::MAX;
    let mut seen_ticks = 0u64;
    let status = loop {
        match child.try_wait() {
            Ok(Some(st)) => break st,
            Ok(None) => {}
            Err(e) => return Err(format!("wait: {}", e)),
        }
        // a process that sleeps (state S/T) without any CPU progress for 5 s is hung
        if last_probe.elapsed().as_millis() >= 250 {
            last_probe = std::time::Instant::now();
            if let Some((state, ticks)) = proc_state(pid) {
                seen_ticks = ticks;
                if ticks != last_ticks || !(state == 'S' || state == 'T') {
                    last_ticks = ticks;
                    last_progress = std::time::Instant::now();
                }
            }
        }
        if t0.elapsed().as_secs() >= lim.wall_s || last_progress.elapsed().as_secs() >= 5 {
            wall_killed = true;
            // kill the whole process group
            let _ = std::process::Command::new("kill").arg("-9").arg("--").arg(format!("-{}", pid)).status();
            let _ = child.kill();
            break child.wait().map_err(|e| e.to_string())?;
        }
        std::thread::sleep(std::time::Duration::from_millis(nap));
        nap = std::cmp::min(nap * 2, 20);
    };
    let wall_s = t0.elapsed().as_secs_f64();
    let mut text = String::new();
    if let Ok(f) = std::fs::File::open(dir.join("stderr.txt")) {
        let mut buf = vec![];
        let _ = f.take(1 << 20).read_to_end(&mut buf);
        text = String::from_utf8_lossy(&buf).to_string();
    }
    let error_lines = text.lines().filter(|l| l.contains("error:")).count();
    let alloc_failure = text.contains("memory allocation of");
    // the runtime prints a thread id in parentheses: not part of the observation
    let text: String = {
        let mut o = String::with_capacity(text.len());
        let mut it = text.chars().peekable();
        while let Some(c) = it.next() {
            if c == '(' {
                let mut digits = String::new();
                while let Some(d) = it.peek().copied().filter(|d| d.is_ascii_digit()) {
                    digits.push(d);
                    it.next();
                }
                if !digits.is_empty() && it.peek() == Some(&')') {
                    it.next();
                    o.push_str("(tid)");
                } else {
                    o.push('(');
                    o.push_str(&digits);
                }
            } else {
                o.push(c);
            }
        }
        o
    };
    let head: String = text.lines().filter(|l| !l.trim().is_empty()).take(3).collect::<Vec<_>>().join(" | ").chars().take(300).collect();
    Ok(ProcObs { code: status.code(), signal: status.signal(), wall_killed, error_lines, alloc_failure, stderr_head: head, wall_s, cpu_s_seen: seen_ticks as f64 / 100.0 })
}

/// (state letter, utime + stime in clock ticks) of a live process
fn proc_state(pid: u32) -> Option<(char, u64)> {
    let t = std::fs::read_to_string(format!("/proc/{}/stat", pid)).ok()?;
    let rest = &t[t.rfind(')')? + 1..];
    let f: Vec<&str> = rest.split_whitespace().collect();
    let state = f.first()?.chars().next()?;
    let ut: u64 = f.get(11)?.parse().ok()?;
    let st: u64 = f.get(12)?.parse().ok()?;
    Some((state, ut + st))
}

/// outcome classification; violations carry their kind
#[derive(Clone, Debug, PartialEq, Eq)]
pub enum Outcome {
    Ok,
    Diagnosed,
    Bad(&'static str, String),
    Skipped,
    NotApplicable,
}

impl Outcome {
    fn code(&self) -> &'static str {
        match self {
            Outcome::Ok => "ok",
            Outcome::Diagnosed => "err",
            Outcome::Bad(k, _) => k,
            Outcome::Skipped => "skipped",
            Outcome::NotApplicable => "n/a",
        }
    }
}

fn classify(obs: &ProcObs, out_path: &std::path::Path, expect: &Expect) -> Outcome {
    if obs.wall_killed || obs.signal == Some(SIGXCPU) {
        return Outcome::Bad("timeout", if obs.wall_killed { "no answer: the process stopped consuming CPU or exceeded the wall net".into() } else { "CPU-time limit reached (SIGXCPU)".into() });
    }
    if let Some(s) = obs.signal {
        if obs.alloc_failure {
            return Outcome::Bad("memcap", format!("killed by signal {} after an allocation failure under the 2 GiB cap", s));
        }
        return Outcome::Bad("signal", format!("killed by signal {}", s));
    }
    match obs.code {
        Some(0) => match check_output(out_path, expect) {
            None => Outcome::Ok,
            Some(d) => Outcome::Bad("wrap", format!("exit 0 but {}", d)),
        },
        Some(1) if obs.error_lines >= 1 => Outcome::Diagnosed,
        Some(101) => Outcome::Bad("panic101", "exit status 101 (panic)".into()),
        Some(c) => Outcome::Bad("silent", format!("exit status {} without an `error:` line", c)),
        None => Outcome::Bad("signal", "no exit status".into()),
    }
}

#[derive(Clone, Debug)]
pub struct CaseResult {
    outcome: Outcome,
    obs: Option<ProcObs>,
    expect: Value,
    program_head: String,
    argv: Vec<String>,
    files_total_bytes: usize,
    nfiles: usize,
    cpu_limit_s: u64,
}

fn run_case(root: &str, s: &Site, si: usize, mi: usize, m: &Mag, lim: &Limits, keep_dir: bool) -> Result<CaseResult, String> {
    let Some(g) = (s.gen)(m) else {
        return Ok(CaseResult { outcome: Outcome::NotApplicable, obs: None, expect: Value::Null, program_head: String::new(), argv: vec![], files_total_bytes: 0, nfiles: 0, cpu_limit_s: 0 });
    };
    let dir = std::path::PathBuf::from(format!("{}/s{:03}-m{:02}", root, si, mi));
    let _ = std::fs::remove_dir_all(&dir);
    write_files(&dir, &g.files).map_err(|e| format!("write files: {}", e))?;
    let total_bytes: usize = g.files.iter().map(|f| f.1.len()).sum();
    let lim = &lim.for_input(total_bytes);
    let mut obs = run_process(&dir, lim)?;
    // a SIGKILL that we did not send can only come from outside (OOM killer): re-run, do not guess
    let mut tries = 0;
    while obs.signal == Some(SIGKILL) && !obs.wall_killed && tries < 2 {
        let _ = std::fs::remove_file(dir.join("out.bin"));
        obs = run_process(&dir, lim)?;
        tries += 1;
    }
    let outcome = classify(&obs, &dir.join("out.bin"), &g.expect);
    let main = &g.files[0].1;
    let head = String::from_utf8_lossy(&main[..std::cmp::min(main.len(), 240)]).to_string();
    let res = CaseResult { outcome, obs: Some(obs), expect: g.expect.describe(), program_head: head, argv: argv_of(&dir), files_total_bytes: total_bytes, nfiles: g.files.len(), cpu_limit_s: lim.cpu_s };
    if !keep_dir {
        let _ = std::fs::remove_dir_all(&dir);
    }
    Ok(res)
}

// ------------------------------------------------------------------------------------------------

fn case_json(s: &Site, m: &Mag, r: &CaseResult, m0: &str) -> Value {
    let lim = &Limits { cpu_s: r.cpu_limit_s, wall_s: 15 * r.cpu_limit_s };
    let o = r.obs.as_ref();
    json!({
        "site": s.name,
        "magnitude": m.label(),
        "smallest_failing_magnitude_of_site_and_kind": m0,
        "template": s.template,
        "main_asm_head": r.program_head,
        "files": r.nfiles,
        "input_bytes": r.files_total_bytes,
        "argv": r.argv,
        "launcher": format!("sh -c '{}' $VERIF_REAL_BIN {}", shell_line(lim), r.argv.join(" ")),
        "expected": {"status": "exit 0, or exit 1 with at least one `error:` line on stderr; no signal, no exit 101, within the CPU budget and the 2 GiB cap", "output": r.expect},
        "observed": {
            "outcome": r.outcome.code(),
            "detail": match &r.outcome { Outcome::Bad(_, d) => d.clone(), _ => String::new() },
            "exit_code": o.and_then(|o| o.code),
            "signal": o.and_then(|o| o.signal),
            "error_lines": o.map(|o| o.error_lines),
            "stderr_head": o.map(|o| o.stderr_head.clone()),
        },
    })
}

fn sanity(root: &str, lim: &Limits) -> Result<(), String> {
    let ok = site("sanity-ok", Ladder::Depth, "", |_| main_only("#d8 1\n".into(), exact(&[1])));
    let r = run_case(root, &ok, 998, 0, &Mag::Depth(1), lim, false)?;
    if r.outcome != Outcome::Ok {
        return Err(format!("launcher sanity: `#d8 1` did not assemble to 01 under the launcher: {:?}", r));
    }
    let bad = site("sanity-err", Ladder::Depth, "", |_| main_only("#d8 undefined_symbol\n".into(), Expect::None));
    let r = run_case(root, &bad, 999, 0, &Mag::Depth(1), lim, false)?;
    if r.outcome != Outcome::Diagnosed {
        return Err(format!("launcher sanity: an undefined symbol was not answered by exit 1 + error line: {:?}", r));
    }
    Ok(())
}

pub fn run(ctx: &Ctx) -> Report {
    let mut rep = Report::new(
        "exploration",
        "complete grid site x magnitude on the real binary (one process per case, ulimit -v 2 GiB, 8 MiB stack, CPU-time limit); a case is non-trivial when its magnitude is beyond every limit a 32-bit word or the documented recursion limits could absorb: depth/count >= 100, every recursion cycle, operand 0 or >= 2^31-1; distinct by (site, magnitude)",
    );
    let lim = limits(ctx.thorough);
    let root = format!("{}/c19-{}", scratch_root(), std::process::id());
    let _ = std::fs::remove_dir_all(&root);
    // leftovers of runs that were killed from outside (their process no longer exists)
    if let Ok(rd) = std::fs::read_dir(scratch_root()) {
        for e in rd.flatten() {
            let name = e.file_name().to_string_lossy().to_string();
            if let Some(pid) = name.strip_prefix("c19-").map(|p| p.trim_start_matches("replay-")).and_then(|p| p.parse::<u32>().ok()) {
                if !std::path::Path::new(&format!("/proc/{}", pid)).exists() {
                    let _ = std::fs::remove_dir_all(e.path());
                }
            }
        }
    }
    if let Err(e) = std::fs::create_dir_all(&root) {
        rep.machinery_error = Some(format!("cannot create scratch directory {}: {}", root, e));
        return rep;
    }
    if !std::path::Path::new(&real_bin()).exists() {
        rep.machinery_error = Some(format!("real binary {} is missing", real_bin()));
        return rep;
    }
    if let Err(e) = sanity(&root, &lim) {
        rep.machinery_error = Some(e);
        let _ = std::fs::remove_dir_all(&root);
        return rep;
    }

    let mut sites = sites();
    // development aid: VERIF_C19_ONLY=<substring> restricts the run to matching sites (never exhaustive)
    if let Ok(f) = std::env::var("VERIF_C19_ONLY") {
        sites.retain(|s| f.split(',').any(|p| s.name.contains(p)));
        rep.exhaustive = false;
        rep.extra("restricted_to_sites_matching", json!(f));
    }
    let ladders: BTreeMap<&'static str, Vec<Mag>> =
        [("depth", Ladder::Depth), ("cycle", Ladder::Cycle), ("value", Ladder::Value)].into_iter().map(|(n, l)| (n, ladder_of(l, ctx.thorough))).collect();
    let lad = |l: Ladder| -> &Vec<Mag> {
        &ladders[match l {
            Ladder::Depth => "depth",
            Ladder::Cycle => "cycle",
            Ladder::Value => "value",
        }]
    };

    let results: Mutex<BTreeMap<(usize, usize), CaseResult>> = Mutex::new(BTreeMap::new());
    let failures: Mutex<Vec<String>> = Mutex::new(vec![]);
    let exec = |si: usize, mi: usize| -> Option<CaseResult> {
        let s = &sites[si];
        let m = &lad(s.ladder)[mi];
        match run_case(&root, s, si, mi, m, &lim, false) {
            Ok(r) => {
                results.lock().unwrap().insert((si, mi), r.clone());
                Some(r)
            }
            Err(e) => {
                failures.lock().unwrap().push(format!("{} {}: {}", s.name, m.label(), e));
                None
            }
        }
    };

    let known_mags: BTreeMap<String, Vec<String>> = std::fs::read_to_string(format!("{}/known_findings.json", ctx.verif))
        .ok()
        .and_then(|t| serde_json::from_str::<Value>(&t).ok())
        .and_then(|v| v["findings"].as_array().cloned())
        .unwrap_or_default()
        .iter()
        .filter(|e| e["property"] == "C19" && e["status"] == "known")
        .filter_map(|e| Some((e["key"].as_str()?.to_string(), e["magnitudes"].as_array()?.iter().filter_map(|x| x.as_str().map(|s| s.to_string())).collect())))
        .collect();
    if ctx.thorough {
        // every case, fully parallel; heavy (large-magnitude) cases first only affects scheduling
        let mut cases: Vec<(usize, usize)> = vec![];
        for (si, s) in sites.iter().enumerate() {
            for mi in 0..lad(s.ladder).len() {
                cases.push((si, mi));
            }
        }
        cases.sort_by_key(|(si, mi)| (std::cmp::Reverse(*mi), *si));
        cases.par_iter().with_max_len(1).for_each(|c| {
            exec(c.0, c.1);
        });
    } else {
        // quick: sites in parallel, magnitudes ascending inside a site; after a timeout the magnitudes listed in the
        // site's known finding are not run again (reported as skipped_after_timeout)
        let idx: Vec<usize> = (0..sites.len()).collect();
        idx.par_iter().with_max_len(1).for_each(|si| {
            let n = lad(sites[*si].ladder).len();
            let mut timed_out = false;
            let listed = known_mags.get(&format!("C19:{}:unbounded", sites[*si].name));
            for mi in 0..n {
                // after a time-out, the magnitudes the known finding of this site lists (they would burn the CPU budget
                // again) are not run; every other magnitude still is — there the recorded tree answers at once
                let label = lad(sites[*si].ladder)[mi].label();
                if timed_out && listed.map(|v| v.contains(&label)).unwrap_or(true) {
                    results.lock().unwrap().insert((*si, mi), CaseResult { outcome: Outcome::Skipped, obs: None, expect: Value::Null, program_head: String::new(), argv: vec![], files_total_bytes: 0, nfiles: 0, cpu_limit_s: 0 });
                    continue;
                }
                if let Some(r) = exec(*si, mi) {
                    if matches!(r.outcome, Outcome::Bad("timeout", _)) {
                        timed_out = true;
                    }
                }
            }
        });
    }
    let _ = std::fs::remove_dir_all(&root);

    let failures = failures.into_inner().unwrap();
    if !failures.is_empty() {
        rep.machinery_error = Some(format!("{} cases could not be executed, first: {}", failures.len(), failures[0]));
    }
    let results = results.into_inner().unwrap();

    // ---- verdicts in canonical order -------------------------------------------------------------
    let mut l = Local::new();
    let mut grid = serde_json::Map::new();
    let mut m0s: BTreeMap<String, Value> = BTreeMap::new();
    let mut skipped: Vec<String> = vec![];
    let mut no_success_at_first: Vec<String> = vec![];
    let mut slowest: (f64, String) = (0.0, String::new());
    let mut non_cycle_sites = 0usize;
    let mut near_limit: Vec<String> = vec![];
    let mut cpu_ge_1: Vec<String> = vec![];
    for (si, s) in sites.iter().enumerate() {
        let mags = lad(s.ladder);
        // smallest failing magnitude per kind for this site
        let mut first: BTreeMap<&'static str, usize> = BTreeMap::new();
        let mut count: BTreeMap<&'static str, u64> = BTreeMap::new();
        for mi in 0..mags.len() {
            if let Some(CaseResult { outcome: Outcome::Bad(k, _), .. }) = results.get(&(si, mi)) {
                first.entry(key_kind(k)).or_insert(mi);
                *count.entry(key_kind(k)).or_insert(0) += 1;
            }
        }
        let mut row: Vec<String> = vec![];
        for (mi, m) in mags.iter().enumerate() {
            let Some(r) = results.get(&(si, mi)) else {
                row.push(format!("{}:?", m.label()));
                continue;
            };
            row.push(format!("{}:{}", m.label(), r.outcome.code()));
            match &r.outcome {
                Outcome::NotApplicable => continue,
                Outcome::Skipped => {
                    l.class("skipped_after_timeout");
                    skipped.push(format!("{} {}", s.name, m.label()));
                    rep.exhaustive = false;
                    continue;
                }
                _ => {}
            }
            l.eval();
            if m.nontrivial() {
                l.nontrivial(&(s.name.as_str(), m.label()));
            }
            if let Some(o) = &r.obs {
                if o.cpu_s_seen >= 1.0 {
                    cpu_ge_1.push(format!("{} {} ({}, ~{:.0} s CPU of {} s)", s.name, m.label(), r.outcome.code(), o.cpu_s_seen, r.cpu_limit_s));
                }
                if o.cpu_s_seen * 2.0 >= r.cpu_limit_s as f64 && o.signal != Some(SIGXCPU) && !o.wall_killed {
                    near_limit.push(format!("{} {} ({}, ~{:.0} s CPU of {} s)", s.name, m.label(), r.outcome.code(), o.cpu_s_seen, r.cpu_limit_s));
                }
                if !matches!(r.outcome, Outcome::Bad("timeout", _)) && o.wall_s > slowest.0 {
                    slowest = (o.wall_s, format!("{} {}", s.name, m.label()));
                }
            }
            match &r.outcome {
                Outcome::Ok => l.class("exit0"),
                Outcome::Diagnosed => l.class("exit1-diagnosed"),
                Outcome::Bad(kind, detail) => {
                    l.class(&format!("violation-{}", kind));
                    let m0 = mags[first[key_kind(kind)]].label();
                    let mut key = format!("C19:{}:{}", s.name, key_kind(kind));
                    // a listed finding names the magnitudes at which the site fails on the recorded tree; the same
                    // site failing at any other magnitude is a different violation (e.g. a limit check that went away)
                    if let Some(listed) = known_mags.get(&key) {
                        // a stack overflow of an unbounded recursion: the depth at which the stack runs out depends on
                        // the size of the frames, which a behaviour-preserving restructuring changes by a small factor
                        // (an extracted helper, an extra local) — the listed finding covers every depth from a quarter
                        // of its smallest listed depth upwards; a failure at a much smaller depth is something else
                        let same_overflow = matches!(m, Mag::Depth(_)) && key_kind(kind) == "signal" && {
                            let min_listed = listed.iter().filter_map(|x| x.strip_prefix("n=").and_then(|n| n.parse::<usize>().ok())).min();
                            min_listed.map(|d| m.n() * 4 >= d).unwrap_or(false)
                        };
                        if !listed.contains(&m.label()) && !same_overflow {
                            key = format!("{}@{}", key, m.label());
                        }
                    }
                    l.violation(Violation {
                        property: ID,
                        key,
                        what: format!("site `{}` [{}] at magnitude {}: {} (kind {}; smallest failing ladder magnitude m0 = {})", s.name, s.template, m.label(), detail, kind, m0),
                        case: case_json(s, m, r, &m0),
                    });
                }
                _ => {}
            }
            l.sample(|| json!({"site": s.name, "magnitude": m.label(), "main_asm_head": r.program_head.chars().take(80).collect::<String>(), "outcome": r.outcome.code()}));
        }
        for (k, mi) in &first {
            let r = &results[&(si, *mi)];
            m0s.insert(
                format!("{}:{}", s.name, k),
                json!({"m0": mags[*mi].label(), "ladder_index": mi, "failing_cases": count[k], "template": s.template,
                       "detail": match &r.outcome { Outcome::Bad(_, d) => d.clone(), _ => String::new() },
                       "stderr_head": r.obs.as_ref().map(|o| o.stderr_head.clone())}),
            );
        }
        if s.ladder != Ladder::Cycle {
            non_cycle_sites += 1;
            let succeeded = (0..mags.len()).any(|mi| results.get(&(si, mi)).map(|r| r.outcome == Outcome::Ok).unwrap_or(false));
            if !succeeded {
                no_success_at_first.push(s.name.clone());
            }
        }
        grid.insert(s.name.clone(), json!(row.join(" ")));
    }
    rep.absorb(l);

    rep.extra("sites", json!(sites.len()));
    rep.extra("site_templates", json!(sites.iter().map(|s| (s.name.clone(), json!(s.template))).collect::<serde_json::Map<_, _>>()));
    rep.extra("ladders", json!(ladders.iter().map(|(k, v)| (k.to_string(), json!(v.iter().map(|m| m.label()).collect::<Vec<_>>()))).collect::<serde_json::Map<_, _>>()));
    rep.extra("grid", Value::Object(grid));
    rep.extra("smallest_failing_magnitude", json!(m0s));
    rep.extra("skipped_after_timeout", json!(skipped));
    rep.extra("sites_without_any_success", json!(no_success_at_first));
    rep.extra("limits", json!({"virtual_memory_kib": MEM_KIB, "stack": "default 8 MiB", "cpu_seconds": format!("{} + 1 per 100000 input bytes", lim.cpu_s), "wall_safety_net": "15 x the CPU budget; 5 s asleep without CPU progress"}));
    rep.extra("cases_ending_within_factor_2_of_the_cpu_limit_informative", json!(near_limit));
    rep.extra("cases_with_at_least_1s_cpu_informative", json!(cpu_ge_1));
    rep.extra("slowest_case_without_timeout_informative", json!({"case": slowest.1, "wall_s_rounded": slowest.0.round()}));
    rep.assumptions = vec![
        "the time limit is enforced as CPU time (ulimit -S -t, SIGXCPU) so that verdicts do not depend on machine load; a process that sleeps without consuming CPU for 5 s, or exceeds a wall net of fifteen times that value, is also stopped and counted as a timeout".into(),
        "a death by signal whose stderr carries the Rust runtime's allocation-failure line is classified memcap, any other signal as signal; both are violations, only the key differs".into(),
        "kernel ulimit semantics; sh (dash) as launcher; the binary is built with overflow checks on (a panic there is a silent wrap-around in a plain --release build)".into(),
    ];
    rep.require_class("exit0");
    rep.require_class("exit1-diagnosed");
    // vacuity guard: the generators must produce programs that assemble at some (small) magnitude
    if rep.machinery_error.is_none() && no_success_at_first.len() * 3 > non_cycle_sites {
        rep.machinery_error = Some(format!("vacuity guard: {} of {} sites do not assemble at any magnitude: {:?}", no_success_at_first.len(), non_cycle_sites, no_success_at_first));
    }
    rep
}

pub fn replay(ctx: &Ctx, case: &serde_json::Value) -> i32 {
    let site_name = case["site"].as_str().unwrap_or("").to_string();
    let label = case["magnitude"].as_str().unwrap_or("").to_string();
    let sites = sites();
    let Some(si) = sites.iter().position(|s| s.name == site_name) else {
        eprintln!("unknown site {}", site_name);
        return 2;
    };
    let s = &sites[si];
    let Some(m) = ladder_of(s.ladder, true).into_iter().find(|m| m.label() == label) else {
        eprintln!("unknown magnitude {}", label);
        return 2;
    };
    let lim = limits(ctx.thorough);
    let root = format!("{}/c19-replay-{}", scratch_root(), std::process::id());
    let _ = std::fs::remove_dir_all(&root);
    let code = super::replay_with(ctx, case, |_case, l| match run_case(&root, s, si, 0, &m, &lim, true) {
        Ok(r) => {
            println!("site {} magnitude {}: outcome {} {:?}", s.name, label, r.outcome.code(), r.obs);
            println!("reproduce: cd {}/s{:03}-m00 && sh -c '{}' {} {}", root, si, shell_line(&lim.for_input(r.files_total_bytes)), real_bin(), r.argv.join(" "));
            if let Outcome::Bad(k, d) = &r.outcome {
                l.violation(Violation { property: ID, key: format!("C19:{}:{}", s.name, k), what: d.clone(), case: case_json(s, &m, &r, &label) });
            }
        }
        Err(e) => eprintln!("replay could not run: {}", e),
    });
    // the input files stay in place for manual re-runs only when the case still fails
    if code == 0 {
        let _ = std::fs::remove_dir_all(&root);
    }
    code
}
