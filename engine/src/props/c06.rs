//! C06 — output layout is safe: no overlap, nothing leaves its bank, gaps are zero.
//! Alphabet: bank shapes x relative placement of bank windows x definition order x item sequences;
//! oracle: reference layout (refasm) says "must be rejected" => an error is required; on every
//! success the invariants (i)-(v) are evaluated on the real spans and bits.
use crate::refasm::*;
use crate::run::{self, Obs, Opts};
use crate::stats::*;
use serde_json::json;

pub const ID: &str = "C06";

/// Invariants that need no model: (i) no two non-empty spans intersect, (iv) every bit outside
/// the spans is zero, spans lie inside the output. Returns a short name of the broken invariant.
pub fn span_invariants(obs: &Obs) -> Option<&'static str> {
    if !obs.ok {
        return None;
    }
    let len = obs.bits.len();
    let mut covered = vec![false; len];
    for s in &obs.spans {
        let Some(o) = s.offset else { continue };
        if s.size == 0 {
            continue;
        }
        if o + s.size > len {
            return Some("span beyond the end of the output");
        }
        for k in o..o + s.size {
            if covered[k] {
                return Some("two emitted items share an output bit");
            }
            covered[k] = true;
        }
    }
    let b = obs.bits.as_bytes();
    for k in 0..len {
        if !covered[k] && b[k] == b'1' {
            return Some("a bit not written by any item is not zero");
        }
    }
    None
}

#[derive(Clone, Copy, Debug)]
struct Shape {
    bits: usize,
    size: Option<usize>,
}

#[derive(Clone, Copy, Debug, PartialEq)]
enum Rel {
    Adjacent,
    GapBit,
    GapUnit,
    OverlapBit,
    Before,
    NoOutp,
}

#[derive(Clone, Copy, Debug, PartialEq)]
enum Sym {
    BankA,
    BankB,
    DataUnit,
    DataBit,
    DataTwoUnits,
    Res1,
    Res0,
    Align2,
    AddrFwd,
    AddrStart,
    AddrEnd,
    Label,
    /// a nested label `.nK` (only legal after a top-level symbol; never padded by labelalign)
    NestedLabel,
    /// a rule-defined instruction of one address unit (`uN => 1`N`): instructions take part in the overlap bookkeeping
    /// like data does
    Instr,
}
pub const NSYMS: usize = 14;
const SYMS: [Sym; 14] = [Sym::BankA, Sym::BankB, Sym::DataUnit, Sym::DataBit, Sym::DataTwoUnits, Sym::Res1, Sym::Res0, Sym::Align2, Sym::AddrFwd, Sym::AddrStart, Sym::AddrEnd, Sym::Label, Sym::NestedLabel, Sym::Instr];

pub struct Config {
    pub banks: Vec<BankSrc>,
    /// definition order (indices into banks)
    pub order: Vec<usize>,
}

pub fn make_configs(thorough: bool) -> Vec<Config> {
    let shapes_a = [Shape { bits: 8, size: Some(2) }, Shape { bits: 8, size: None }, Shape { bits: 1, size: Some(4) }, Shape { bits: 3, size: Some(2) }, Shape { bits: 16, size: Some(1) }];
    let shapes_b = [Shape { bits: 8, size: Some(2) }, Shape { bits: 3, size: Some(1) }, Shape { bits: 1, size: Some(1) }, Shape { bits: 8, size: None }];
    let rels = [Rel::Adjacent, Rel::GapBit, Rel::GapUnit, Rel::OverlapBit, Rel::Before, Rel::NoOutp];
    let mut out = vec![];
    // one bank: every shape x addr x fill x labelalign
    for sa in shapes_a {
        for addr in [0i64, 2] {
            for fill in [false, true] {
                for la in [None, Some(2 * sa.bits)] {
                    for outp in [Some(0usize), Some(8), None] {
                        let a = BankSrc { name: "a".into(), bits: Some(sa.bits), addr: Some(addr as i128), size: sa.size, outp, fill, labelalign: la };
                        out.push(Config { banks: vec![a], order: vec![0] });
                    }
                }
            }
        }
    }
    // two banks
    for sa in shapes_a {
        for fill_a in [false, true] {
            let a_out = 8usize; // leave room for a bank placed before it
            let a = BankSrc { name: "a".into(), bits: Some(sa.bits), addr: Some(0), size: sa.size, outp: Some(a_out), fill: fill_a, labelalign: None };
            let a_end = sa.size.map(|s| a_out + s * sa.bits);
            for sb in shapes_b {
                for rel in rels {
                    for fill_b in [false, true] {
                        let b_size_bits = sb.size.map(|s| s * sb.bits);
                        let outp = match (rel, a_end) {
                            (Rel::NoOutp, _) => None,
                            (Rel::Before, _) => match b_size_bits {
                                Some(sz) if sz <= a_out => Some(a_out - sz),
                                Some(_) => Some(0), // overlaps the start of a
                                None => Some(0),    // unbounded bank before a: overlaps
                            },
                            (Rel::Adjacent, Some(e)) => Some(e),
                            (Rel::GapBit, Some(e)) => Some(e + 1),
                            (Rel::GapUnit, Some(e)) => Some(e + sb.bits),
                            (Rel::OverlapBit, Some(e)) => Some(e - 1),
                            (_, None) => Some(a_out + 64), // a is unbounded: any later window overlaps
                        };
                        let b = BankSrc { name: "b".into(), bits: Some(sb.bits), addr: Some(2), size: sb.size, outp, fill: fill_b, labelalign: if fill_b { Some(2 * sb.bits) } else { None } };
                        for order in [vec![0usize, 1], vec![1, 0]] {
                            out.push(Config { banks: vec![a.clone(), b.clone()], order: order.clone() });
                            if sb.bits == 8 && sa.bits != 8 {
                                // the second bank leaves `bits` out: the documented default unit (8), whatever was defined before
                                let mut b2 = b.clone();
                                b2.bits = None;
                                out.push(Config { banks: vec![a.clone(), b2], order });
                            }
                        }
                    }
                }
            }
        }
    }
    // three banks with a degenerate middle one: a zero-size filled bank, or a bank without output, between two
    // banks whose windows are adjacent or overlapping; all definition orders
    {
        for fill_a in [false, true] {
            let a = BankSrc { name: "a".into(), bits: Some(8), addr: Some(0), size: Some(2), outp: Some(0), fill: fill_a, labelalign: None };
            for mid in 0..2 {
                let m = if mid == 0 {
                    BankSrc { name: "m".into(), bits: Some(8), addr: Some(0), size: Some(0), outp: Some(16), fill: true, labelalign: None }
                } else {
                    BankSrc { name: "m".into(), bits: Some(8), addr: Some(0x100), size: Some(2), outp: None, fill: false, labelalign: None }
                };
                for c_out in [16usize, 8] {
                    for fill_c in [false, true] {
                        let c = BankSrc { name: "c".into(), bits: Some(8), addr: Some(4), size: Some(1), outp: Some(c_out), fill: fill_c, labelalign: None };
                        for order in permutations(3) {
                            out.push(Config { banks: vec![a.clone(), m.clone(), c.clone()], order });
                        }
                    }
                }
            }
        }
    }
    if thorough {
        // three banks: c after b (adjacent or overlapping), all permutations of definition order
        let a = BankSrc { name: "a".into(), bits: Some(8), addr: Some(0), size: Some(2), outp: Some(0), fill: false, labelalign: None };
        for (b_out, c_out) in [(16usize, 24usize), (16, 23), (24, 16), (17, 40), (16, 32)] {
            for fill in [false, true] {
                let b = BankSrc { name: "b".into(), bits: Some(8), addr: Some(2), size: Some(1), outp: Some(b_out), fill, labelalign: None };
                let c = BankSrc { name: "c".into(), bits: Some(3), addr: Some(0), size: Some(2), outp: Some(c_out), fill, labelalign: None };
                for order in permutations(3) {
                    out.push(Config { banks: vec![a.clone(), b.clone(), c.clone()], order });
                }
            }
        }
    }
    out
}

pub fn build_prog(cfg: &Config, seq: &[usize]) -> Prog {
    let mut items = vec![];
    for i in &cfg.order {
        items.push(Item::Bankdef(cfg.banks[*i].clone()));
    }
    // the last defined bank is current; start explicitly in `a`
    items.push(Item::Bank("a".into()));
    let mut cur = 0usize;
    let mut nlabel = 0;
    for s in seq {
        let b = &cfg.banks[cur];
        let bits = b.bits.unwrap_or(8);
        let addr = b.addr.unwrap();
        match SYMS[*s] {
            Sym::BankA => {
                cur = 0;
                items.push(Item::Bank("a".into()));
            }
            Sym::BankB => {
                if cfg.banks.len() > 1 {
                    cur = cfg.banks.len() - 1;
                    items.push(Item::Bank(cfg.banks[cur].name.clone()));
                } else {
                    items.push(Item::Bank("a".into()));
                }
            }
            Sym::DataUnit => items.push(Item::Data(Some(bits), vec!["1".into()])),
            Sym::DataBit => items.push(Item::Data(Some(1), vec!["1".into()])),
            Sym::DataTwoUnits => items.push(Item::Data(Some(2 * bits), vec!["3".into()])),
            Sym::Res1 => items.push(Item::Res("1".into())),
            Sym::Res0 => items.push(Item::Res("0".into())),
            Sym::Align2 => items.push(Item::Align(format!("{}", 2 * bits))),
            Sym::AddrFwd => items.push(Item::Addr(format!("{}", addr + 1))),
            Sym::AddrStart => items.push(Item::Addr(format!("{}", addr))),
            Sym::AddrEnd => items.push(Item::Addr(format!("{}", addr + b.size.unwrap_or(3) as i128))),
            Sym::Label => {
                nlabel += 1;
                items.push(Item::Label(format!("L{}", nlabel)));
            }
            Sym::NestedLabel => {
                nlabel += 1;
                items.push(Item::Label(format!(".n{}", nlabel)));
            }
            Sym::Instr => items.push(Item::Instr(format!("u{}", bits))),
        }
    }
    let mut widths: Vec<usize> = cfg.banks.iter().map(|b| b.bits.unwrap_or(8)).collect();
    widths.sort();
    widths.dedup();
    let ruledefs = if seq.iter().any(|s| SYMS[*s] == Sym::Instr) {
        vec![RuleDefSrc { name: None, sub: false, rules: widths.iter().map(|w| RuleSrc::new(&format!("u{}", w), &format!("1`{}", w))).collect() }]
    } else {
        vec![]
    };
    Prog { ruledefs, items }
}

fn judge(cfg: &Config, seq: &[usize], l: &mut Local) {
    let prog = build_prog(cfg, seq);
    judge_prog(&prog, cfg.banks.len() >= 2 || seq.iter().any(|s| SYMS[*s] == Sym::DataBit), l);
}

fn judge_prog(prog: &Prog, legal_is_nontrivial: bool, l: &mut Local) {
    let src = prog.render();
    let r = assemble(prog);
    l.eval();
    let obs = run::assemble_str(&src, &Opts::iters(30));
    let mut bad: Option<(String, &'static str)> = None;
    if obs.panicked.is_some() {
        bad = Some(("C06:panic".into(), "panic"));
    }
    match &r {
        RefOut::Unspec(_) => l.unspecified += 1,
        RefOut::Error(e) => {
            l.class(&format!("must-reject:{}", e));
            l.nontrivial(&src);
            if obs.ok {
                bad = Some((format!("C06:illegal-layout-accepted:{}", e), "a layout the rules forbid was assembled"));
            } else if !obs.has_errors && obs.panicked.is_none() {
                bad = Some(("C06:rejected-without-error".into(), "rejected without an error"));
            }
        }
        RefOut::Ok(ok) => {
            l.class("legal");
            if legal_is_nontrivial {
                l.nontrivial(&src);
            }
            if obs.success() {
                // (iii) position of every item, (ii) inside its bank window, (v) length
                let mut k = 0;
                for p in &ok.placements {
                    if matches!(prog.items[p.item], Item::Res(_)) {
                        continue;
                    }
                    let Some(sp) = obs.spans.get(k) else {
                        // span list shorter than the item list: the public result is recorded differently from what
                        // this check reads; positions cannot be judged (no verdict), the model-free invariants still are
                        l.count("span_list_does_not_cover_items", 1);
                        break;
                    };
                    k += 1;
                    let b = &ok.banks[p.bank];
                    let want_off = b.outp.map(|o| o + p.pos);
                    let want_addr = format!("{:x}", &b.addr + p.pos / b.bits);
                    if sp.offset != want_off || sp.size != p.size {
                        bad = Some(("C06:item-position".into(), "an item does not sit at outp + (a - addr) * unit + bit offset"));
                        break;
                    }
                    if sp.addr != want_addr {
                        bad = Some(("C06:item-address".into(), "an item reports the wrong address"));
                        break;
                    }
                    if let (Some(o), Some(sz), Some(bo)) = (sp.offset, b.size, b.outp) {
                        if o < bo || o + sp.size > bo + sz {
                            bad = Some(("C06:outside-bank".into(), "an item lies outside the output window of its bank"));
                            break;
                        }
                    }
                }
                if bad.is_none() && obs.bits.len() != ok.bits.len() {
                    bad = Some(("C06:output-length".into(), "output does not extend exactly to the last written bit / end of the last filled bank"));
                }
                if bad.is_none() && obs.bits != ok.bits {
                    bad = Some(("C06:bits".into(), "bits differ from the reference layout"));
                }
            }
            // legal layouts being rejected is not a C06 violation (C01's business)
        }
    }
    if bad.is_none() {
        if let Some(inv) = span_invariants(&obs) {
            bad = Some((format!("C06:invariant:{}", inv), inv));
        }
    }
    l.traces_validated += 1;
    if let Some((key, what)) = bad {
        l.violation(Violation {
            property: ID,
            key,
            what: format!("{}: {}", what, src.replace('\n', " / ")),
            case: json!({"program": src, "expected": super::c01::ref_summary(&r), "observed": obs.summary(), "spans": obs.spans.iter().map(|s| format!("{:?}+{} @{}", s.offset, s.size, s.addr)).collect::<Vec<_>>()}),
        });
    }
    l.sample(|| json!({"program": src, "reference": super::c01::ref_summary(&r)}));
}

pub fn run(ctx: &Ctx) -> Report {
    let mut rep = Report::new(
        "model_checking",
        "bank configurations (1..2 banks, thorough: 3; address units 1/3/8/16 bits, sized and unbounded, fill, labelalign, second window adjacent / 1-bit gap / 1-unit gap / 1-bit overlap / before / no output, both definition orders) x all item sequences up to a length over {bank switches, unit/sub-unit/two-unit data, #res, #align, #addr forward/start/end, label}; reference layout decides must-reject, invariants checked on every success. Non-trivial = reference defines the outcome and (>=2 banks or sub-unit data or must-reject); distinct by program text.",
    );
    // banks whose addresses, counted in bits, no longer fit a machine word, banks at and around 2^64 (in address units) and banks at negative addresses: alignment
    // to a non-power-of-two (the remainder must be taken of the whole number)
    {
        let addrs: [i128; 12] = [1 << 61, (1 << 61) + 1, (1 << 61) + 2, (1 << 62) + 1, -1, -2, -3, -4, 0x7fff_ffff_ffff_fff0, 1 << 64, (1 << 64) + 1, (1 << 64) - 1];
        let alpha = ["#d8 1", "#align 24", "#align 16", "L:", "#res 1", "#d8 2", "#align 40"];
        let la: [Option<usize>; 2] = [None, Some(24)];
        let maxlen = if ctx.thorough { 4 } else { 3 };
        let ka = alpha.len() as u64;
        let per = seq_count(ka, maxlen);
        rep.absorb(par_run(per * (addrs.len() * la.len()) as u64, |i, l| {
            let d = decode(i, &[per, addrs.len() as u64, la.len() as u64]);
            let seq = seq_decode(d[0], ka, maxlen);
            let bank = BankSrc { name: "a".into(), bits: Some(8), addr: Some(addrs[d[1] as usize]), size: None, outp: Some(0), fill: false, labelalign: la[d[2] as usize] };
            let mut items = vec![Item::Bankdef(bank), Item::Bank("a".into())];
            let mut nl = 0;
            for s in &seq {
                let t = alpha[*s];
                if let Some(a) = t.strip_prefix("#align ") {
                    items.push(Item::Align(a.into()));
                } else if t == "#res 1" {
                    items.push(Item::Res("1".into()));
                } else if t == "L:" {
                    nl += 1;
                    items.push(Item::Label(format!("L{}", nl)));
                } else {
                    items.push(Item::Data(Some(8), vec![t[4..].trim().to_string()]));
                }
            }
            judge_prog(&Prog { ruledefs: vec![], items }, true, l);
        }));
    }
    let cfgs = make_configs(ctx.thorough);
    let k = SYMS.len() as u64;
    let ncfg = cfgs.len() as u64;
    // sequence length bound per number of banks: window comparisons need no items, range checks 1-2,
    // backward-#addr overlaps 3-4 items in one bank
    let bound = |c: &Config| -> u32 {
        let nbanks = c.banks.len();
        let plain = nbanks == 1 && c.banks[0].outp == Some(0) && !c.banks[0].fill && c.banks[0].labelalign.is_none() && c.banks[0].addr == Some(0);
        match (nbanks, ctx.thorough) {
            (1, false) if plain => 4,
            (1, false) => 3,
            (1, true) if plain => 5,
            (1, true) => 4,
            (_, false) => 2,
            (_, true) => 3,
        }
    };
    let mut offsets: Vec<u64> = vec![0];
    for c in &cfgs {
        let n = seq_count(k, bound(c));
        offsets.push(offsets.last().unwrap() + n);
    }
    let total = *offsets.last().unwrap();
    rep.absorb(par_run(total, |i, l| {
        let ci = offsets.partition_point(|o| *o <= i) - 1;
        let cfg = &cfgs[ci];
        let seq = seq_decode(i - offsets[ci], k, bound(cfg));
        judge(cfg, &seq, l);
    }));
    // items placed in the implicit default bank although the program defines banks: every kind of item, before the
    // first definition and between two definitions
    {
        let pres: Vec<(&str, Item)> = vec![
            ("instruction", Item::Instr("nop".into())),
            ("data", Item::Data(Some(8), vec!["1".into()])),
            ("label", Item::Label("L0".into())),
            ("reservation", Item::Res("1".into())),
        ];
        let mut cases: Vec<(String, Prog)> = vec![];
        for cfg in cfgs.iter().filter(|c| c.order.iter().enumerate().all(|(i, o)| i == *o)) {
            for (kind, pre) in &pres {
                for at in 0..cfg.banks.len() {
                    for tail in [false, true] {
                        let mut items = vec![];
                        for (i, b) in cfg.banks.iter().enumerate() {
                            if i == at {
                                if at > 0 {
                                    // back to the default bank is not expressible: only the position before the first definition is
                                    continue;
                                }
                                items.push(pre.clone());
                            }
                            items.push(Item::Bankdef(b.clone()));
                        }
                        if at > 0 {
                            continue;
                        }
                        items.push(Item::Bank("a".into()));
                        if tail {
                            items.push(Item::Instr("nop".into()));
                        }
                        cases.push((kind.to_string(), Prog { ruledefs: vec![RuleDefSrc { name: None, sub: false, rules: vec![RuleSrc::new("nop", "0x00")] }], items }));
                    }
                }
            }
        }
        rep.absorb(par_cases(&cases, |(kind, prog), l| {
            let src = prog.render();
            let r = assemble(prog);
            l.eval();
            let obs = run::assemble_str(&src, &Opts::iters(30));
            l.nontrivial(&src);
            l.traces_validated += 1;
            match &r {
                RefOut::Error(e) => {
                    l.class(&format!("must-reject:{}", e));
                    if obs.ok || obs.panicked.is_some() {
                        l.violation(Violation {
                            property: ID,
                            key: format!("C06:default-bank-{}-accepted", kind),
                            what: format!("an item ({}) in the default bank of a program that defines banks was assembled: {}", kind, src.replace('\n', " / ")),
                            case: json!({"program": src, "expected": super::c01::ref_summary(&r), "observed": obs.summary()}),
                        });
                    }
                }
                _ => l.unspecified += 1,
            }
        }));
        rep.extra("default_bank_cases", json!(cases.len()));
    }
    let nseq = json!({"bounds": "one plain bank: length<=4 (quick) / <=5 (thorough); one bank: <=3 (quick) / <=4 (thorough); two or three banks: <=2 (quick) / <=3 (thorough)", "total": total});
    rep.extra("configurations", json!(ncfg));
    rep.extra("sequences_per_configuration", json!(nseq));
    rep.assumptions = vec!["only the direction illegal => rejected is demanded; rejecting a legal layout is C01's business".into(), "zero-size banks and zero-size items have no verdict".into()];
    rep.require_class("legal");
    rep.require_class("must-reject:bank output windows overlap");
    rep.require_class("must-reject:item beyond the end of its bank");
    rep.require_class("must-reject:output overlap");
    rep.require_class("must-reject:write into a bank without output");
    rep.require_class("must-reject:label not aligned to an address");
    rep.require_class("must-reject:use of the default bank while banks are defined");
    rep
}

pub fn replay(ctx: &Ctx, case: &serde_json::Value) -> i32 {
    super::replay_with(ctx, case, |case, l| {
        let prog = case["program"].as_str().unwrap_or("");
        let obs = run::assemble_str(prog, &Opts::iters(30));
        println!("program:\n{}\nexpected (reference): {}\nobserved: {}", prog, case["expected"], obs.summary());
        let exp = &case["expected"];
        let bad = if exp.get("error").is_some() {
            obs.ok || obs.panicked.is_some()
        } else if exp["ok"].as_bool() == Some(true) {
            obs.panicked.is_some() || (obs.success() && (Some(obs.hex().as_str()) != exp["hex"].as_str() || Some(obs.bits.len() as u64) != exp["bits_len"].as_u64())) || span_invariants(&obs).is_some()
        } else {
            span_invariants(&obs).is_some() || obs.panicked.is_some()
        };
        if bad {
            l.violation(Violation { property: ID, key: "replay".into(), what: "case still violates".into(), case: case.clone() });
        }
    })
}
