//! Row parsers for the listing / symbol-table formats judged by C12.
//!
//! Written from the repository's golden files (`tests/driver/ok_format_annotated*`, `ok_format_multiple`,
//! `ok_format_symbol*`), the usage text (`tcgame`: "comments out annotations with `#` and prefixes each group
//! with `0x` or `0b`") and, for the two formats without any golden file (`addrspan`, `mesen-mlb`), from the
//! format's own self-describing header line / the public Mesen label-file layout (`P:<hex>:<name>`,
//! `R:<hex>:<name>`). Column widths and padding are never looked at: fields are split on the separator
//! characters and trimmed of ASCII blanks only (digits of base 64/128 listings may be arbitrary non-blank
//! characters, including Unicode white space such as U+0085 / U+00A0, so `str::trim` must not be used on data).

/// Trim ASCII blanks only.
pub fn trim_ascii(s: &str) -> &str {
    s.trim_matches(|c| c == ' ' || c == '\t' || c == '\r')
}

/// One row of `annotated` / `tcgame`.
#[derive(Clone, Debug)]
pub struct Row {
    /// `group:bit` (None when the format prints dashes: the item is not part of the output)
    pub outp: Option<(u128, u128)>,
    pub addr: u128,
    /// data digits in row order, group separators / radix prefixes removed
    pub digits: Vec<char>,
    /// source text, ASCII-trimmed
    pub text: String,
    /// 0-based line of the listing where the row starts (diagnostics only)
    pub at_line: usize,
}

/// One row of `addrspan`.
#[derive(Clone, Debug)]
pub struct AddrRow {
    pub outp: Option<(u128, u128)>,
    pub addr: u128,
    pub file: String,
    pub line_start: u128,
    pub col_start: u128,
    pub line_end: u128,
    pub col_end: u128,
    pub at_line: usize,
}

fn all_dashes(s: &str) -> bool {
    // padding may sit inside the field (`--: -`)
    s.contains('-') && s.chars().all(|c| c == '-' || c == ':' || c == ' ')
}

/// `g:b` in the given radix, or dashes.
pub fn parse_outp(s: &str, radix: u32) -> Result<Option<(u128, u128)>, String> {
    let s = trim_ascii(s);
    if all_dashes(s) {
        return Ok(None);
    }
    let Some((g, b)) = s.split_once(':') else { return Err(format!("outp field `{}` is not `group:bit`", s)) };
    let g = u128::from_str_radix(trim_ascii(g), radix).map_err(|_| format!("outp group `{}`", g))?;
    let b = u128::from_str_radix(trim_ascii(b), radix).map_err(|_| format!("outp bit `{}`", b))?;
    Ok(Some((g, b)))
}

pub fn parse_num(s: &str, radix: u32) -> Result<u128, String> {
    u128::from_str_radix(trim_ascii(s), radix).map_err(|_| format!("number `{}` (radix {})", trim_ascii(s), radix))
}

/// `annotated`: ` outp | addr | data ; source`. The header (` outp | addr | data (base N)`) and blank lines
/// are skipped: a row is a line with two `|` whose first field is `hex:hex` or dashes.
/// Returns (rows, lines that were neither blank, header nor row).
pub fn parse_annotated(text: &str, radix: u32) -> (Vec<Row>, Vec<String>) {
    let mut rows = vec![];
    let mut junk = vec![];
    let mut seen_header = false;
    for (n, line) in text.split('\n').enumerate() {
        if trim_ascii(line).is_empty() {
            continue;
        }
        let mut it = line.splitn(3, '|');
        let (Some(f0), Some(f1), Some(rest)) = (it.next(), it.next(), it.next()) else {
            junk.push(line.to_string());
            continue;
        };
        let outp = match parse_outp(f0, radix) {
            Ok(o) => o,
            Err(_) => {
                if !seen_header {
                    seen_header = true;
                } else {
                    junk.push(line.to_string());
                }
                continue;
            }
        };
        let Ok(addr) = parse_num(f1, radix) else {
            junk.push(line.to_string());
            continue;
        };
        // data ; source — the first `;` ends the data column (no digit alphabet accepted by the
        // calibration contains `;` or a blank)
        let (data, src) = match rest.split_once(';') {
            Some((d, s)) => (d, s),
            None => (rest, ""),
        };
        let digits: Vec<char> = data.chars().filter(|c| *c != ' ' && *c != '\t' && *c != '\r').collect();
        rows.push(Row { outp, addr, digits, text: trim_ascii(src).to_string(), at_line: n });
    }
    (rows, junk)
}

/// `tcgame`: per item three lines — `# outp | addr`, `# source`, data line (`0x..`/`0b..` groups).
pub fn parse_tcgame(text: &str, radix: u32, base: u32) -> (Vec<Row>, Vec<String>) {
    let prefix = if base == 2 { "0b" } else { "0x" };
    let lines: Vec<&str> = text.split('\n').collect();
    let mut rows = vec![];
    let mut junk = vec![];
    let mut i = 0;
    let mut seen_header = false;
    while i < lines.len() {
        let line = lines[i];
        if trim_ascii(line).is_empty() {
            i += 1;
            continue;
        }
        let Some(body) = line.strip_prefix('#') else {
            junk.push(line.to_string());
            i += 1;
            continue;
        };
        let fields: Vec<&str> = body.split('|').collect();
        let parsed = if fields.len() == 2 {
            match (parse_outp(fields[0], radix), parse_num(fields[1], radix)) {
                (Ok(o), Ok(a)) => Some((o, a)),
                _ => None,
            }
        } else {
            None
        };
        let Some((outp, addr)) = parsed else {
            if !seen_header {
                seen_header = true;
            } else {
                junk.push(line.to_string());
            }
            i += 1;
            continue;
        };
        // source line
        let src = lines.get(i + 1).copied().unwrap_or("");
        let Some(src_body) = src.strip_prefix('#') else {
            junk.push(format!("{} / (no `#` source line follows)", line));
            i += 1;
            continue;
        };
        let data = lines.get(i + 2).copied().unwrap_or("");
        let mut digits = vec![];
        let mut bad = false;
        for g in data.split(|c| c == ' ' || c == '\t' || c == '\r').filter(|g| !g.is_empty()) {
            match g.strip_prefix(prefix) {
                Some(d) => digits.extend(d.chars()),
                None => bad = true,
            }
        }
        if bad {
            junk.push(format!("data line `{}` has a group without the `{}` prefix", data, prefix));
        }
        rows.push(Row { outp, addr, digits, text: trim_ascii(src_body).to_string(), at_line: i });
        i += 3;
    }
    (rows, junk)
}

/// `addrspan`: `phys:bit | addr | file:line_start:col_start:line_end:col_end`; lines starting with `;` are comments.
pub fn parse_addrspan(text: &str, radix: u32) -> (Vec<AddrRow>, Vec<String>) {
    let mut rows = vec![];
    let mut junk = vec![];
    for (n, line) in text.split('\n').enumerate() {
        let t = trim_ascii(line);
        if t.is_empty() || t.starts_with(';') {
            continue;
        }
        let f: Vec<&str> = t.splitn(3, '|').collect();
        if f.len() != 3 {
            junk.push(line.to_string());
            continue;
        }
        let (Ok(outp), Ok(addr)) = (parse_outp(f[0], radix), parse_num(f[1], radix)) else {
            junk.push(line.to_string());
            continue;
        };
        let loc = trim_ascii(f[2]);
        let parts: Vec<&str> = loc.rsplitn(5, ':').collect(); // col_end, line_end, col_start, line_start, file
        if parts.len() != 5 {
            junk.push(line.to_string());
            continue;
        }
        let nums: Vec<Result<u128, _>> = parts[..4].iter().map(|p| trim_ascii(p).parse::<u128>()).collect();
        if nums.iter().any(|r| r.is_err()) {
            junk.push(line.to_string());
            continue;
        }
        let v: Vec<u128> = nums.into_iter().map(|r| r.unwrap()).collect();
        rows.push(AddrRow {
            outp,
            addr,
            file: trim_ascii(parts[4]).to_string(),
            line_start: v[3],
            col_start: v[2],
            line_end: v[1],
            col_end: v[0],
            at_line: n,
        });
    }
    (rows, junk)
}

/// `symbols`: `name = 0x<hex>` per line (hierarchical names joined with `.`).
/// negative values of a symbols listing (`n = 0x-5`, `n = -0x5`, `n = -5`), which `parse_symbols` leaves aside
pub fn parse_negative_symbols(text: &str) -> Vec<(String, i128)> {
    let mut v = vec![];
    for line in text.split('\n') {
        let t = trim_ascii(line);
        let Some((n, val)) = t.split_once('=') else { continue };
        let val = trim_ascii(val);
        if !val.contains('-') {
            continue;
        }
        let digits = val.replace('-', "");
        let parsed = match digits.strip_prefix("0x") {
            Some(h) => i128::from_str_radix(h, 16).ok(),
            None => digits.parse::<i128>().ok(),
        };
        if let Some(x) = parsed {
            if val.matches('-').count() == 1 {
                v.push((trim_ascii(n).to_string(), -x));
            }
        }
    }
    v
}

pub fn parse_symbols(text: &str) -> (Vec<(String, u128)>, Vec<String>) {
    let mut v = vec![];
    let mut junk = vec![];
    for line in text.split('\n') {
        let t = trim_ascii(line);
        if t.is_empty() {
            continue;
        }
        let Some((n, val)) = t.split_once('=') else {
            junk.push(line.to_string());
            continue;
        };
        let val = trim_ascii(val);
        if val.matches('-').count() == 1 {
            // a negative value: read by parse_negative_symbols
            continue;
        }
        let parsed = match val.strip_prefix("0x") {
            Some(h) => u128::from_str_radix(h, 16).ok(),
            None => val.parse::<u128>().ok(),
        };
        match parsed {
            Some(x) => v.push((trim_ascii(n).to_string(), x)),
            None => junk.push(line.to_string()),
        }
    }
    (v, junk)
}

/// `mesen-mlb`: `<type>:<hex offset>:<label>` per line.
pub fn parse_mlb(text: &str) -> (Vec<(String, u128, String)>, Vec<String>) {
    let mut v = vec![];
    let mut junk = vec![];
    for line in text.split('\n') {
        let t = trim_ascii(line);
        if t.is_empty() {
            continue;
        }
        let f: Vec<&str> = t.splitn(3, ':').collect();
        if f.len() != 3 {
            junk.push(line.to_string());
            continue;
        }
        match u128::from_str_radix(f[1], 16) {
            Ok(x) => v.push((f[0].to_string(), x, f[2].to_string())),
            Err(_) => junk.push(line.to_string()),
        }
    }
    (v, junk)
}

/// Digit alphabet of one base: `chars[d]` is the character printed for digit value `d`.
#[derive(Clone, Debug)]
pub struct Alphabet {
    pub chars: Vec<char>,
    pub case_insensitive: bool,
}

impl Alphabet {
    /// 0-9a-z for bases up to 36 (either case accepted).
    pub fn conventional(base: usize) -> Alphabet {
        let chars = (0..base as u32).map(|d| std::char::from_digit(d, 36).unwrap_or('?')).collect();
        Alphabet { chars, case_insensitive: true }
    }
    /// the continuation observed on the unchanged tree (only used as a fall-back when calibration fails)
    pub fn natural(base: usize) -> Alphabet {
        let chars = (0..base as u32).map(|d| if d < 10 { (b'0' + d as u8) as char } else { char::from_u32('a' as u32 + d - 10).unwrap() }).collect();
        Alphabet { chars, case_insensitive: false }
    }
    pub fn value(&self, c: char) -> Option<usize> {
        let c = if self.case_insensitive { c.to_ascii_lowercase() } else { c };
        self.chars.iter().position(|x| *x == c)
    }
    /// usable for parsing: injective and free of separators
    pub fn well_formed(&self) -> bool {
        for (i, c) in self.chars.iter().enumerate() {
            if *c == ' ' || *c == ';' || *c == '\n' || *c == '\r' || *c == '\t' {
                return false;
            }
            if self.chars[..i].contains(c) {
                return false;
            }
        }
        true
    }
}

/// digits -> '0'/'1' string, `bits_per_digit` bits each (None: a character outside the alphabet)
pub fn digits_to_bits(digits: &[char], bits_per_digit: usize, alpha: &Alphabet) -> Option<String> {
    let mut s = String::with_capacity(digits.len() * bits_per_digit);
    for c in digits {
        let v = alpha.value(*c)?;
        for k in (0..bits_per_digit).rev() {
            s.push(if (v >> k) & 1 == 1 { '1' } else { '0' });
        }
    }
    Some(s)
}
