//! Corpus conformance of the reference assembler (DESIGN §3.1 step 1): every file of the repository's
//! test corpus that lies in the reference's defined domain is translated to the abstract program form
//! and assembled by the reference; the prediction must equal the file's own `; = 0x…` / `; error:`
//! expectations — the maintainers' specification, not customasm's output. A disagreement is a model
//! bug by definition (machinery failure, never a verdict about customasm).
use crate::corpus;
use crate::refasm::*;
use crate::refparse::{self, Tk};
use crate::refx::{self, bits_of, Env, RVal};

#[derive(Debug)]
pub struct Conformance {
    pub files_total: usize,
    pub in_domain: usize,
    pub agreed: usize,
    pub reference_unspecified: usize,
    pub unspecified_reasons: std::collections::BTreeMap<String, usize>,
    pub disagreements: Vec<String>,
}

fn strip_comment(line: &str) -> &str {
    // `;` starts a comment unless inside a string
    let mut in_str = false;
    for (i, c) in line.char_indices() {
        match c {
            '"' => in_str = !in_str,
            ';' if !in_str => return &line[..i],
            _ => {}
        }
    }
    line
}

fn expectation_bits(text: &str) -> Option<String> {
    let mut bits = String::new();
    let mut any = false;
    for line in text.lines() {
        if let Some(i) = line.find("; =") {
            any = true;
            let v = line[i + 3..].trim();
            if v == "0x" {
                continue;
            }
            let (z, size) = refx::literal(v)?;
            bits += &bits_of(&z, size?);
        }
    }
    if any {
        Some(bits)
    } else {
        None
    }
}

fn const_usize(e: &str) -> Option<usize> {
    let t = refparse::parse_all(e).ok()?;
    match refx::eval(&t, &Env::new()) {
        Ok(RVal::Int(z, _)) => usize::try_from(&z).ok(),
        _ => None,
    }
}
fn const_i64(e: &str) -> Option<i64> {
    let t = refparse::parse_all(e).ok()?;
    match refx::eval(&t, &Env::new()) {
        Ok(RVal::Int(z, _)) => i64::try_from(&z).ok(),
        _ => None,
    }
}

fn split_top_level_commas(s: &str) -> Vec<String> {
    let toks = refparse::tokenize(s);
    let mut out = vec![];
    let mut depth = 0i32;
    let mut start = 0usize;
    for t in &toks {
        match &t.tk {
            Tk::P("(") | Tk::P("[") | Tk::P("{") => depth += 1,
            Tk::P(")") | Tk::P("]") | Tk::P("}") => depth -= 1,
            Tk::P(",") if depth == 0 => {
                out.push(s[start..t.start].trim().to_string());
                start = t.end;
            }
            _ => {}
        }
    }
    let last = s[start..].trim().to_string();
    // a trailing comma is allowed after the last element
    if !(last.is_empty() && !out.is_empty()) {
        out.push(last);
    }
    out
}

/// Translate a test file into the abstract program form; None = outside the translator's subset.
pub fn translate(text: &str) -> Option<Prog> {
    let mut prog = Prog::default();
    let lines: Vec<&str> = text.lines().map(strip_comment).collect();
    if text.contains(";*") {
        return None;
    }
    let mut i = 0;
    while i < lines.len() {
        let line = lines[i].trim();
        i += 1;
        if line.is_empty() {
            continue;
        }
        let lower = line.to_ascii_lowercase();
        if lower.starts_with("#ruledef") || lower.starts_with("#subruledef") {
            let sub = lower.starts_with("#subruledef");
            let head = line[if sub { 11 } else { 8 }..].trim();
            let (name, mut rest) = match head.find('{') {
                Some(p) => (head[..p].trim(), head[p + 1..].to_string()),
                None => {
                    // brace on a following line
                    while i < lines.len() && lines[i].trim().is_empty() {
                        i += 1;
                    }
                    let l = lines.get(i)?.trim();
                    i += 1;
                    if !l.starts_with('{') {
                        return None;
                    }
                    (head, l[1..].to_string())
                }
            };
            if !name.is_empty() && !name.chars().all(|c| c.is_ascii_alphanumeric() || c == '_') {
                return None;
            }
            let name = if name.is_empty() { None } else { Some(name.to_string()) };
            let mut rules = vec![];
            // collect rule lines until the closing brace of the block
            loop {
                let r = rest.trim().to_string();
                if r == "}" {
                    break;
                }
                if !r.is_empty() {
                    if r.ends_with('}') && !r.contains("=>") {
                        return None;
                    }
                    let (pat, prod) = r.split_once("=>")?;
                    let prod = prod.trim();
                    // single-line productions only; a trailing `}` closes the block only if braces do not balance
                    let opens = prod.matches('{').count();
                    let closes = prod.matches('}').count();
                    if prod.is_empty() || opens != closes {
                        if closes == opens + 1 && prod.ends_with('}') {
                            let p2 = prod[..prod.len() - 1].trim();
                            if p2.is_empty() {
                                return None;
                            }
                            rules.push(RuleSrc::new(pat.trim(), p2));
                            break;
                        }
                        return None;
                    }
                    if prod.contains("asm") {
                        return None;
                    }
                    rules.push(RuleSrc::new(pat.trim(), prod));
                }
                rest = lines.get(i)?.to_string();
                i += 1;
            }
            prog.ruledefs.push(RuleDefSrc { name, sub, rules });
            continue;
        }
        if lower.starts_with("#bankdef") {
            let head = line[8..].trim();
            let (name, mut body) = match head.find('{') {
                Some(p) => (head[..p].trim().to_string(), head[p + 1..].to_string()),
                None => {
                    while i < lines.len() && lines[i].trim().is_empty() {
                        i += 1;
                    }
                    let l = lines.get(i)?.trim();
                    i += 1;
                    if !l.starts_with('{') {
                        return None;
                    }
                    (head.to_string(), l[1..].to_string())
                }
            };
            while !body.contains('}') {
                body.push('\n');
                body += lines.get(i)?;
                i += 1;
            }
            let body = body[..body.find('}')?].to_string();
            let mut b = BankSrc { name, ..Default::default() };
            for field in body.split(|c| c == '\n' || c == ',') {
                let f = field.trim().trim_start_matches('#');
                if f.is_empty() {
                    continue;
                }
                let (k, v) = match f.split_once('=') {
                    Some((k, v)) => (k.trim(), v.trim()),
                    None => match f.split_once(char::is_whitespace) {
                        Some((k, v)) => (k.trim(), v.trim()),
                        None => (f, ""),
                    },
                };
                match k {
                    "bits" => b.bits = Some(const_usize(v)?),
                    "addr" => b.addr = Some(const_i64(v)? as i128),
                    "size" => b.size = Some(const_usize(v)?),
                    "outp" => b.outp = Some(const_usize(v)?),
                    "labelalign" => b.labelalign = Some(const_usize(v)?),
                    "fill" => b.fill = true,
                    _ => return None, // addr_end etc.
                }
            }
            prog.items.push(Item::Bankdef(b));
            continue;
        }
        if let Some(rest) = line.strip_prefix('#') {
            let (name, arg) = match rest.split_once(char::is_whitespace) {
                Some((n, a)) => (n.to_ascii_lowercase(), a.trim().to_string()),
                None => (rest.to_ascii_lowercase(), String::new()),
            };
            if name == "d" || (name.starts_with('d') && name[1..].parse::<usize>().is_ok()) {
                let w = if name == "d" { None } else { Some(name[1..].parse::<usize>().ok()?) };
                if arg.is_empty() {
                    return None; // elements continue on the next line: outside the subset
                }
                prog.items.push(Item::Data(w, split_top_level_commas(&arg)));
                continue;
            }
            match name.as_str() {
                "res" if !arg.is_empty() => prog.items.push(Item::Res(arg)),
                "align" if !arg.is_empty() => prog.items.push(Item::Align(arg)),
                "addr" if !arg.is_empty() => prog.items.push(Item::Addr(arg)),
                "bank" if !arg.is_empty() => prog.items.push(Item::Bank(arg)),
                _ => return None, // #fn #include #if #const #noemit #once #assert #bits #labelalign ...
            }
            continue;
        }
        // label, constant or instruction
        let toks = refparse::tokenize(line);
        let useful: Vec<&refparse::Token> = toks.iter().filter(|t| !matches!(t.tk, Tk::Ws | Tk::Comment)).collect();
        // leading dots + identifier + ':' / '='
        let mut k = 0;
        while k < useful.len() && useful[k].tk == Tk::P(".") {
            k += 1;
        }
        if k < useful.len() {
            if let Tk::Ident(_) = &useful[k].tk {
                if k + 1 < useful.len() && useful[k + 1].tk == Tk::P(":") {
                    if k + 2 != useful.len() {
                        return None; // label followed by something on the same line
                    }
                    prog.items.push(Item::Label(line[..useful[k].end].replace(' ', "")));
                    continue;
                }
                if k + 1 < useful.len() && useful[k + 1].tk == Tk::P("=") {
                    let name = line[..useful[k].end].replace(' ', "");
                    let expr = line[useful[k + 1].end..].trim().to_string();
                    prog.items.push(Item::Const(name, expr));
                    continue;
                }
            }
        }
        prog.items.push(Item::Instr(line.to_string()));
    }
    Some(prog)
}

pub fn run(repo: &str) -> Conformance {
    let cases = corpus::load(repo);
    let mut c = Conformance { files_total: cases.len(), in_domain: 0, agreed: 0, reference_unspecified: 0, unspecified_reasons: Default::default(), disagreements: vec![] };
    for case in &cases {
        if case.has_command || case.id.starts_with("examples/") {
            continue;
        }
        let Some((_, bytes)) = case.files.iter().find(|f| f.0 == case.root) else { continue };
        let Ok(text) = String::from_utf8(bytes.clone()) else { continue };
        let expect_bits = expectation_bits(&text);
        if expect_bits.is_some() == case.expects_error {
            continue; // both or neither: not a clear expectation
        }
        let Some(prog) = translate(&text) else { continue };
        c.in_domain += 1;
        match (assemble(&prog), &expect_bits) {
            (RefOut::Unspec(why), _) => {
                c.reference_unspecified += 1;
                *c.unspecified_reasons.entry(why).or_insert(0) += 1;
            }
            (RefOut::Ok(ok), Some(b)) => {
                if ok.bits == *b {
                    c.agreed += 1;
                } else {
                    c.disagreements.push(format!("{}: reference bits {} but the file expects {}", case.id, crate::run::bits_to_hex(&ok.bits), crate::run::bits_to_hex(b)));
                }
            }
            (RefOut::Error(_), None) => c.agreed += 1,
            (RefOut::Ok(_), None) => c.disagreements.push(format!("{}: reference assembles it but the file expects an error", case.id)),
            (RefOut::Error(e), Some(_)) => c.disagreements.push(format!("{}: reference rejects it ({}) but the file expects output", case.id, e)),
        }
    }
    c
}
