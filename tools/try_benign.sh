#!/bin/bash
# usage: try_benign.sh <abs patch> — applies a behaviour-preserving patch to /repo, runs every quick check, reverts.
# Every check must exit 0 (KNOWN-FINDING lines allowed).
PATCH="$1"; cd /repo || exit 2
git diff --quiet || { echo "repo dirty"; exit 2; }
git apply --check "$PATCH" 2>/dev/null || { echo "PATCH DOES NOT APPLY: $PATCH"; exit 3; }
git apply "$PATCH"; trap 'git -C /repo checkout -- .' EXIT
bad=0
for id in C01 C02 C03 C04 C05 C06 C07 C08 C09 C10 C11 C12 C13 C14 C15 C16 C17 C18 C19; do
  out=$(cd /verif && ./check $id 2>&1); code=$?
  if [ $code -ne 0 ]; then bad=1; echo "== $id exit=$code"; echo "$out" | grep -E "violation:|violations with|MACHINERY" | head -4 | cut -c1-300; fi
done
[ $bad = 0 ] && echo "all 19 checks exit 0"
