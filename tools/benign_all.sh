#!/bin/bash
# usage: benign_all.sh — every patch under /verif/benign x every quick check, in the private slot BEN (so /repo is untouched).
# Every check must exit 0. Output: /verif/.build/benign_all.log (only non-zero exits are listed under each patch).
cd /verif; export SLOT=BEN SHOW=3
tools/setup_agent.sh BEN >/dev/null
: > .build/benign_all.log
for d in benign/*/; do
  n=$(basename $d)
  echo "#### $n" >> .build/benign_all.log
  tools/try_private.sh /verif/benign/$n/patch.diff C01 C02 C03 C04 C05 C06 C07 C08 C09 C10 C11 C12 C13 C14 C15 C16 C17 C18 C19 2>&1 | grep -v "exit=0 violation_lines=0" >> .build/benign_all.log
done
echo "#### done" >> .build/benign_all.log
