#!/bin/bash
# usage: benign_all.sh — every patch under /verif/benign x every quick check, in private slots (so /repo is untouched),
# three slots in parallel. Every check must exit 0. Output: /verif/.build/benign_all.log (only non-zero exits are listed
# under each patch).
cd /verif; export SHOW=3
: > .build/benign_all.log
# newest patches first; patches already judged silent in this run (BENIGN_SKIP, space-separated) are left out
ls -d benign/*/ | xargs -n1 basename | sort -r | grep -v -x -F -f <(echo ${BENIGN_SKIP:-none} | tr ' ' '\n') > .build/benign_list.txt
run_slot() {
  slot=$1; k=$2
  tools/setup_agent.sh $slot >/dev/null
  awk -v k=$k 'NR%3==k' .build/benign_list.txt | while read n; do
    out=$(SLOT=$slot tools/try_private.sh /verif/benign/$n/patch.diff C01 C02 C03 C04 C05 C06 C07 C08 C09 C10 C11 C12 C13 C14 C15 C16 C17 C18 C19 2>&1 | grep -v "exit=0 violation_lines=0")
    { echo "#### $n"; [ -n "$out" ] && echo "$out"; } >> .build/benign_all.log
  done
}
run_slot BEN 0 &
run_slot PRIV2 1 &
run_slot MATRIX 2 &
wait
echo "#### done" >> .build/benign_all.log
