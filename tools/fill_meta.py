#!/usr/bin/env python3
"""Reads .build/matrix.log (tools/matrix.sh) and fills seeded/*/meta.json 'detected_by', and writes MUTANTS.md."""
import json, os, re, glob
V = os.path.dirname(os.path.dirname(os.path.abspath(__file__)))
rows = {}
for line in open(os.path.join(V, ".build", "matrix.log")):
    m = re.match(r"^(C\d\d-[A-Z]):(.*)$", line.strip())
    if not m:
        continue
    name, rest = m.group(1), m.group(2)
    if "PATCH DOES NOT APPLY" in rest:
        rows[name] = {"note": "patch no longer applies to the repaired tree (the site it touches was changed by a fix: commit)", "results": {}}
        continue
    res = {}
    for mm in re.finditer(r"(C\d\d)=(\d+)(\{[^}]*\})?", rest):
        res[mm.group(1)] = {"exit": int(mm.group(2)), "keys": (mm.group(3) or "").strip("{} ").split("] [") if mm.group(3) else []}
    rows[name] = {"results": res}
# manual additions recorded while developing (tools/try_mutant.sh runs)
extra = json.load(open(os.path.join(V, "tools", "manual_detection.json"))) if os.path.exists(os.path.join(V, "tools", "manual_detection.json")) else {}
out = ["# Seeded changes and which checks catch them", "",
       "Each change was written by an independent sub-agent that saw only the property text and a scratch worktree; each was confirmed by me (patch applies, 605 tests pass with it, demo fails with / passes without). `exit=1` means the check's quick tier raised a VIOLATION with the change applied (tools/matrix.sh, run against a private copy of the tree; /repo itself is never modified).", "",
       "| change | breaks | own check | other checks that also catch it | first violation keys |", "|---|---|---|---|---|"]
for d in sorted(glob.glob(os.path.join(V, "seeded", "*/"))):
    name = os.path.basename(d.rstrip("/"))
    own = name.split("-")[0]
    mp = os.path.join(d, "meta.json")
    meta = json.load(open(mp))
    r = rows.get(name, {"results": {}})
    det = sorted([k for k, v in r["results"].items() if v["exit"] == 1])
    for k in extra.get(name, []):
        if k not in det:
            det.append(k)
    meta["detected_by"] = det
    meta["matrix"] = r
    json.dump(meta, open(mp, "w"), indent=1)
    ownres = r["results"].get(own)
    if own in det:
        ownt = "caught"
    elif meta.get("not_decidable"):
        ownt = "not decidable (see meta.json)"
    elif det:
        ownt = "not by the own check"
    else:
        ownt = "**not caught**"
    keys = ""
    if ownres and ownres["keys"]:
        keys = "; ".join(k.strip("[] ") for k in ownres["keys"][:2])
    out.append("| %s | %s | %s | %s | %s |" % (name, own, ownt, ", ".join(k for k in det if k != own) or "-", keys))
open(os.path.join(V, "MUTANTS.md"), "w").write("\n".join(out) + "\n")
print("\n".join(out[-40:]))
