#!/bin/bash
# Runs seeded changes against checks in a private engine+repo copy (/verif/.build/agents/MATRIX), so /repo stays free.
# usage: matrix.sh [name-prefix]   (seeded/<prefix>*; own check + the checks tools/manual_detection.json lists for it + $EXTRA)
# output: appended to /verif/.build/matrix.log (remove it first for a fresh table)
A=/verif/.build/agents/MATRIX
cd $A/engine && cargo build --release -q 2>&1 | tail -3
export CARGO_NET_OFFLINE=true RUST_BACKTRACE=0 VERIF_DIR=$A/out VERIF_REPO=$A/repo VERIF_SCRATCH=$A/scratch VERIF_REAL_BIN=$A/bin-target/release/customasm
cp /verif/known_findings.json $A/out/; ln -sfn /verif/pyref $A/out/pyref
build() { (cd $A/engine && cargo build --release -q 2>&1 | grep -E "^error" | head -3); (cd $A/repo && CARGO_PROFILE_RELEASE_OPT_LEVEL=2 CARGO_PROFILE_RELEASE_OVERFLOW_CHECKS=true CARGO_PROFILE_RELEASE_DEBUG_ASSERTIONS=true CARGO_TARGET_DIR=$A/bin-target cargo build --release --offline -q --bin customasm 2>&1 | grep -E "^error" | head -3); }
for d in /verif/seeded/${1:-}*/; do
  m=$(basename $d); own=${m%-*}
  git -C $A/repo checkout -q -- . 
  if ! git -C $A/repo apply --check $d/patch.diff 2>/dev/null; then echo "$m: PATCH DOES NOT APPLY to current HEAD"; continue; fi
  git -C $A/repo apply $d/patch.diff
  build
  res=""
  others=$(python3 -c "import json,sys; d=json.load(open('/verif/tools/manual_detection.json')); print(' '.join(x for x in d.get(sys.argv[1],[]) if x!=sys.argv[2]))" $m $own)
  for id in $own $others ${EXTRA:-}; do
    out=$(cd $A/out && timeout 600 $A/target/release/cav $id 2>&1); code=$?
    keys=$(echo "$out" | grep -o "violations with key \[[^]]*\]" | sed 's/violations with key //' | tr '\n' ' ' | cut -c1-200)
    res="$res $id=$code"
    [ "$code" = "1" ] && res="$res{$keys}"
  done
  echo "$m:$res"
done
git -C $A/repo checkout -q -- .
