#!/usr/bin/env python3
"""Rewrites the table of DESIGN.md §13.6 from /verif/evidence/*.json (the evidence of the quick tier)."""
import json, os, re
V = os.path.dirname(os.path.dirname(os.path.abspath(__file__)))
rows = ["| property | level | evaluations | distinct non-trivial | states / transitions | predictions compared | exhaustive | wall (s) |", "|---|---|---|---|---|---|---|---|"]
for i in range(1, 20):
    pid = "C%02d" % i
    e = json.load(open(os.path.join(V, "evidence", pid + ".json")))
    c = e["coverage"]
    assert e["tier"] == "quick", (pid, e["tier"])
    st = "%s / %s" % (c["states"], c["transitions"]) if c.get("states") else "-"
    tv = c.get("traces_validated_against_impl")
    rows.append("| %s | %s | %s | %s | %s | %s | %s | %.1f |" % (pid, e["level"], format(c["evaluations"], ","), format(c["distinct_nontrivial"], ","), st, tv if tv else "-", c["exhaustive"], e["wall_s"]))
p = os.path.join(V, "DESIGN.md")
s = open(p).read()
m = re.search(r"(### 13\.6[^\n]*\n\n)(\|.*?\n)(\n)", s, re.S)
assert m, "section 13.6 table not found"
s = s[:m.start(2)] + "\n".join(rows) + "\n" + s[m.end(2):]
open(p, "w").write(s)
print("\n".join(rows))
