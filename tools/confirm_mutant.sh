#!/bin/bash
# usage: confirm_mutant.sh <ID> <X>  — independently confirms a seeded change in its scratch worktree
# (/tmp/wt/<ID>, pristine): patch applies, suite passes with it, demo fails with it and passes without.
# On success copies it to /verif/seeded/<ID>-<X>/ with meta.json (fields filled from the runs).
set -u
ID="$1"; X="$2"; BASE="${3:-/tmp/wt}"; NAME="${4:-$X}"; PROP="${5:-$ID}"; WT=$BASE/$ID; SRC=$WT/seeded_out/$X; DST=/verif/seeded/$PROP-$NAME
cd "$WT" || exit 2
git checkout -q -- src
git apply --check "$SRC/patch.diff" || { echo "$ID-$X: patch does not apply"; exit 1; }
git apply "$SRC/patch.diff"
T=$(cargo test --workspace --offline 2>&1 | grep -E "^test result" | head -1)
echo "$ID-$X suite with change: $T"
case "$T" in *"605 passed; 0 failed"*) ;; *) echo "$ID-$X: suite does not pass with the change"; git checkout -q -- src; exit 1;; esac
DEMO=""
if [ -f "$SRC/demo.sh" ]; then
  bash "$SRC/demo.sh" "$WT" > $BASE/$ID-$X.with.log 2>&1; W=$?
  git checkout -q -- src
  bash "$SRC/demo.sh" "$WT" > $BASE/$ID-$X.without.log 2>&1; O=$?
  DEMO="demo.sh"
else
  echo "$ID-$X: no demo.sh (manual confirmation needed)"; git checkout -q -- src; exit 1
fi
echo "$ID-$X demo: with change exit=$W, without exit=$O"
if [ "$W" = "0" ] || [ "$O" != "0" ]; then echo "$ID-$X: demo does not discriminate"; exit 1; fi
mkdir -p "$DST"
cp -r "$SRC"/. "$DST"/
python3 - "$PROP" "$NAME" "$T" "$W" "$O" <<'PY'
import json,sys,os
ID,X,T,W,O=sys.argv[1:6]
dst="/verif/seeded/%s-%s"%(ID,X)
notes=open(os.path.join(dst,"NOTES.md")).read() if os.path.exists(os.path.join(dst,"NOTES.md")) else ""
meta={"id":"%s-%s"%(ID,X),"breaks_property":ID,"author":"independent sub-agent given only the property text and a scratch worktree",
 "needs_to_manifest":"see NOTES.md (trigger section)",
 "confirmed_by_me":{"patch_applies_to":"scratch worktree of /repo at the time of writing and /repo HEAD","suite_with_change":T,"demo_with_change_exit":int(W),"demo_without_change_exit":int(O),
   "commands":["git apply patch.diff","cargo test --workspace --offline","bash demo.sh <tree>  (with and without the change)"]},
 "detected_by":[]}
json.dump(meta,open(os.path.join(dst,"meta.json"),"w"),indent=1)
PY
echo "$ID-$X: CONFIRMED -> $DST"
