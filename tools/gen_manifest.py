#!/usr/bin/env python3
"""Regenerates /verif/MANIFEST.json from the table below (kept in one place so it is always valid)."""
import json, os, sys
VERIF = os.path.dirname(os.path.dirname(os.path.abspath(__file__)))

CHECKS = {
 "C01": dict(level="model_checking", design="DESIGN.md §4 C01, §3.3, §3.4",
   technique="bounded exhaustive enumeration of (rule set, program) pairs against an independent reference assembler",
   text="All rule sets of 1..2 (thorough: 3) templates from a 27-template pool x every line the pool can produce (every range boundary, labels before/after, constants, undefined names, malformed lines), in one rule block and one block per rule, plus all item sequences up to a length over layout/label/data/instruction items (and a two-bank variant) are assembled by the real assembler and compared — success/failure, bits, every symbol value — with a reference assembler (character-level matcher with its own expression parser, layout, scoping) written from the documented rules.",
   note="Trusts the reference models refasm/refparse/refx (bound to the real code by agreeing on >300k programs; any disagreement is triaged). Programs outside the reference's defined domain (value-dependent sizes, blanks splitting adjacent literal characters, strings/blocks in arguments) get no verdict and are counted. Iteration budget 30."),
 "C04": dict(level="model_checking", design="DESIGN.md §4 C04",
   technique="bounded exhaustive enumeration of (type, width, value, spelling) against a closed-form reference predicate",
   text="Every (type u/s/i, width 0..16, value in [-2^N-4, 2^N+4], six spellings) triple and every #dN case is assembled with the real assembler and compared with the property's own inequalities and the low-N-bits emission rule; widths 17..256 at every boundary. Complete enumeration of a finite space, so an off-by-one at any width/sign is hit.",
   note="Trusts rustc/std/num-bigint and the marker framing (0xa5 before, 1 bit after the field). Quick tier enumerates widths 0..9 completely and 10..16 at boundaries; thorough 0..16 completely."),
 "C05": dict(level="model_checking", design="DESIGN.md §4 C05, §3.2",
   technique="bounded exhaustive enumeration of expression trees, literal spellings and strings against an independent reference evaluator",
   text="All expression trees up to the stated depth over fixed leaf alphabets (every operator, built-in, ordered operator pair), each printed with minimal and with full parenthesisation, are parsed and evaluated by the real parser/evaluator and compared (value, size, error class) with a reference evaluator written from the documentation; literal spellings and string escapes x encodings likewise; the depth<=1 family also through `#d` and constants in the whole assembler.",
   note="Reference evaluator re-derives division, shifts and bit operations by hand on num-bigint integers; inputs the documentation does not determine are classified Unspecified and carry no verdict (counted in evidence). Depth 6 over everything is not reachable; evidence states the completed depth."),
}

NOT_YET = {
}

ALL = ["C%02d" % i for i in range(1, 20)]

def main():
    checks = []
    for pid in ALL:
        if pid not in CHECKS:
            continue
        c = CHECKS[pid]
        checks.append({
            "property_id": pid,
            "quick_cmd": "./check %s --tier quick" % pid,
            "thorough_cmd": "./check %s --tier thorough" % pid,
            "evidence_file": "/verif/evidence/%s.json" % pid,
            "replay_cmd_template": "./check %s --replay {path}" % pid,
            "engine": "cav",
            "level_claimed": {"category": c["level"], "text": c["text"], "design_ref": c["design"]},
            "level_note": c["note"],
            "technique": c["technique"],
        })
    na = []
    for pid in ALL:
        if pid not in CHECKS:
            na.append({"property_id": pid, "reason": NOT_YET.get(pid, "check not built yet in this round (planned in DESIGN.md §4/§11); no verdict is claimed for it")})
    m = {
        "version": 1,
        "setup_cmd": "./check --build-only",
        "hooks": {
            "guard": "--cfg hlorenzi_customasm_verif",
            "enable": "engine/.cargo/config.toml sets rustflags = [\"--cfg\", \"hlorenzi_customasm_verif\"] for the harness build, which compiles /repo as a path dependency",
            "baseline_off_cmd": "cd /repo && cargo test --workspace --no-fail-fast --offline",
            "source_commits": json.load(open(os.path.join(VERIF, "tools", "hook_commits.json"))),
            "add_only": True,
        },
        "engines": [{"name": "cav", "path": "/verif/engine", "serves_properties": [c["property_id"] for c in checks],
                     "kind_free_text": "Rust harness linked against the real crate: canonical-order enumerators, reference models, evidence writer"}],
        "checks": checks,
        "not_applicable": na,
        "notes": "All checks are bounded exhaustive enumerations (no sampling) run by ./check, which rebuilds from /repo's working tree. Exit 0 held / 1 VIOLATION / 2 machinery failure. Known findings: known_findings.json.",
    }
    json.dump(m, open(os.path.join(VERIF, "MANIFEST.json"), "w"), indent=1)
    print("wrote MANIFEST.json with", len(checks), "checks,", len(na), "not_applicable")

if __name__ == "__main__":
    main()
