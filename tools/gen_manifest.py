#!/usr/bin/env python3
"""Regenerates /verif/MANIFEST.json from the table below (kept in one place so it is always valid)."""
import json, os, sys
VERIF = os.path.dirname(os.path.dirname(os.path.abspath(__file__)))

CHECKS = {
 "C01": dict(level="model_checking", design="DESIGN.md §4 C01, §3.3, §3.4",
   technique="bounded exhaustive enumeration of (rule set, program) pairs against an independent reference assembler",
   text="All rule sets of 1..2 (thorough: 3) templates from a pool of rule templates (prefix-sharing mnemonics, literal/typed/untyped/sub-rule operands, digit-letter mnemonics, two sub-rule operands, …) x every line the pool can produce (every range boundary, labels before/after, constants, undefined names, malformed lines), in one rule block and one block per rule, plus all item sequences up to a length over layout/label/data/instruction items (two-bank and labelalign variants, label-dependent #addr/#res/#align whose unique layout the reference solves by fixed-point iteration + dependency analysis, sub-rule literals shadowed by symbols) are assembled by the real assembler and compared — success/failure, bits, every symbol value — with a reference assembler (character-level matcher with its own expression parser, layout, scoping) written from the documented rules.",
   note="Trusts the reference models refasm/refparse/refx (bound to the maintainers' own expectations by the corpus conformance run inside this check (0 disagreements) and to the real code by agreeing on every enumerated program; any disagreement is triaged). Programs outside the reference's defined domain (value-dependent sizes, blanks splitting adjacent literal characters, strings/blocks in arguments) get no verdict and are counted. Iteration budget 30."),
 "C02": dict(level="model_checking", design="DESIGN.md §4 C02, §3.5",
   technique="bounded exhaustive enumeration of value-dependent programs x budgets x switches; certificate re-derivation of every claimed fixed point by the reference model",
   text="Sixteen rule families with value-dependent encodings (assert cascades, typed widths, pc-relative also in a bank at a negative address, every family also in a bank at 2^64, candidates of non-static width, constants whose size flips with a label, label-dependent layout directives, data in range only after shrinking, sub-rule operands, …) plus directed families (late-settling booleans, constants/labels as scope parents, late zero operands behind a jump at small / wide / negative bank addresses) x all item sequences up to a length x iteration budgets x the four optimisation-switch combinations, plus forward chains of length 0..12 (needing up to 14 passes) with and without an oscillator x budgets 1..30: every claimed success is certified by recomputing, from the assembler's own final symbol values and instruction sizes, each instruction's surviving matches, the unique smallest encoding, every data element and every label address; every failure must be clean. Nothing is predicted about which fixed point is found.",
   note="Certificate uses the reference matcher/evaluator/layout (refasm) on the public result only (spans, bits, symbols output). States = distinct certified final states, transitions = passes executed (iterations_taken). Quick: sequences <=3, budgets {1,2,3,4,10}; thorough: <=4/5, budgets 1..30."),
 "C06": dict(level="model_checking", design="DESIGN.md §4 C06, §3.4",
   technique="bounded exhaustive enumeration of bank configurations x item sequences against a reference layout model plus invariants on the real spans",
   text="All bank configurations of a structured grid (1..2 banks, thorough 3; address units 1/3/8/16 bits; sized/unbounded; fill; labelalign; second window adjacent / 1-bit gap / 1-unit gap / 1-bit overlap / before / without output; both definition orders) x all item sequences up to a length: the reference layout decides which programs must be rejected (an error is then required) and, on success, where every item must sit; the invariants no-overlap / inside-the-bank / gaps-zero / exact-length are evaluated on the real spans and bits.",
   note="Only the direction illegal => rejected is demanded. Zero-size banks/items carry no verdict. The off-by-one in fill_banks found by this check was repaired (fix: e3416df)."),
 "C07": dict(level="exploration", design="DESIGN.md §4 C07",
   technique="exhaustive metamorphic re-rendering of reference-defined programs; differential comparison with the base run",
   text="Every C01 base program (rule sets of 1..2, thorough 3, templates x pool lines) whose outcome the reference defines is re-rendered in all enumerated ways — case masks on the characters the pattern spells literally, upper/alternating rule text, blank/tab/two blanks/block comment at each token boundary (one and all), trailing comments, all rule permutations, all splits into blocks, sub-rule blocks after their users, one consistent label renaming, literal-vs-expression with the name also declared — and every rendering must reproduce the base's success/failure and bits.",
   note="Blanks are only added; a blank between two adjacent pattern literals is a recorded known finding with an input-side classification (shared root cause with C08)."),
 "C08": dict(level="exploration", design="DESIGN.md §4 C08",
   technique="exhaustive differential execution of every generated program and the whole corpus under the four switch combinations x budgets",
   text="Every program of the C01 generators (rule sets of 1..2 templates x all pool lines, one block and one block per rule; item sequences), of all C02 value-dependent and directed families, command-line defines, the skeleton chains and every file of the repository's corpus and examples is assembled under the four combinations of the two --debug-no-optimize-* switches at budgets {1,3,10,30} (chains 1..30); success/failure, bits and symbol values must be identical.",
   note="Message texts are not compared. Two genuine divergences are recorded as known findings (blank between adjacent pattern literals; unoptimised resolver needing a larger budget), each recognised by an input-side classification, every other difference is a violation."),
 "C09": dict(level="model_checking", design="DESIGN.md §4 C09",
   technique="exhaustive enumeration of programs x budget rows on the real resolver loop; monotonicity relation between runs",
   text="Every program of the C02 value-dependent and directed families, the skeleton grid (chains needing up to 14 passes, with and without an oscillator), asm-block macros with local labels, #assert programs, every family again inside a bank at 2^64 and a grid of late-zero-operand programs at small / wide / negative bank addresses is assembled under a row of budgets (quick {1,2,3,4,5,10,11,30}, thorough 1..31): a success at N must recur with identical bits and symbols at every larger budget, the reported number of passes never exceeds the budget, failures are clean.",
   note="The implementation is compared with itself across budgets; states = distinct (program, outcome row), transitions = passes executed. Two defects found by this check were repaired (fix: 7b38a8a, bde47c9)."),
 "C14": dict(level="model_checking", design="DESIGN.md §4 C14, §3.6",
   technique="exhaustive enumeration of path strings, include graphs x #once subsets and inclusion-function ranges against reference models; real binary under strace for confinement (thorough)",
   text="Every path string of up to 3 (thorough 4) components over {.., ., empty, sub, x.asm, <std>} with both separators from five current files is resolved by util::filename_navigate and compared with a component-wise path model plus a model-independent confinement predicate; every include graph over <= 3 (thorough 4) files with <= 2 includes per file, every #once subset, same-named files in sub-directories and several spellings is expanded on the mock file server and compared with a DFS expansion model (cycles must be errors); every path string inside #include/incbin/incbinstr/inchexstr from four positions; every (file length 0..4, start, length) for the three inclusion functions. Thorough re-runs trees and escape attempts with the real binary under strace with sentinel files outside the tree.",
   note="states = distinct (include stack, once-set) configurations of the model, transitions = include steps. '..' popping a file's own root marker and zero-length results carry no verdict. Four defects found by this check were repaired (see known_findings.json)."),
 "C15": dict(level="model_checking", design="DESIGN.md §4 C15, §3.6",
   technique="exhaustive enumeration of label-declaration sequences x reference shapes x positions against an independent scoping model",
   text="Every sequence of label declarations up to a length over {a, b} at dot-levels 0..3 (skipped levels and duplicates included) with one probe of every reference shape (dot-level 0..3 x six dotted paths) at every position; constant chains of 2..4 in all permutations with a label and probes at every position, nested constants, cycles, duplicates; an address-free constant inserted at every position; the same trees with declarations wrapped in '#if true { }'. Compared (success, probed address, symbol table) with the scoping model of the reference assembler.",
   note="A level-0 constant opens a scope in this assembler: positions where that matters are Unspecified for the moved-constant family. One genuine deviation (declarations inside #if arms do not scope what follows) is a recorded known finding."),
 "C16": dict(level="model_checking", design="DESIGN.md §4 C16, §3.6",
   technique="exhaustive enumeration of condition trees x constant valuations x define assignments against a reference interpreter (ifworld)",
   text="Eight complete families — condition trees (all chain shapes to a depth, all condition forms, all valuations, constants before/after/behind alias chains), feeding chains in all textual orders, references to arm-local symbols, define assignments (every subset of {A,B,C} x 8 values, hierarchical/undeclared/dead-arm/label names), undecidable and non-boolean conditions, relative references and block locals in conditions and in the constants they read, and a driver sub-grid with every -d spelling — are compared (success, marker bytes, visible symbols, or an error) with a reference interpreter written from the property statement.",
   note="states = distinct worlds (visible items + known constants) reached by the model, transitions = splices. Cases the statement does not determine (a name declared twice among visible items, lazily decidable conditions, local scoping across arm boundaries) carry no verdict. A defect found was repaired (fix: 034af25)."),
 "C10": dict(level="exploration", design="DESIGN.md §4 C10",
   technique="exhaustive enumeration of job histories and thread placements in one process against fresh-process baselines; repetition over fresh processes for the hash-seed dimension (sampled, labelled)",
   text="About twenty jobs built to collide on every conceivable cache key (same file names, mnemonics, symbol names, format strings; different rule bodies, constants, banks, includes, defines) and to have several equally-ranked diagnostics. All histories of <=3 (thorough <=4) jobs in one process, every job on main/fresh threads and every ordered pair on two concurrent threads must reproduce, byte for byte, the record (bits, 23 formatted outputs, written files, printed diagnostics) of the job alone in a fresh process; fresh-process repetition of the real binary samples the per-process hash seed.",
   note="Histories and placements are exhaustive; the hash-seed and OS-schedule dimensions cannot be enumerated (RandomState cannot be seeded additively, the crate has no synchronisation points for a controlled scheduler) and are sampled and labelled so in the evidence. loom/shuttle do not apply (zero scheduling points)."),
 "C11": dict(level="exploration", design="DESIGN.md §4 C11",
   technique="exhaustive enumeration of output lengths/shapes; independent decoder per format compared with the assembled bits",
   text="Every output length in the tier's range x 3 contents x 4 emission styles as a single block, multi-block outputs (gaps by #addr/#res, labels, zero-size spans, multi-record blocks) and multi-bank outputs are really assembled and formatted by driver::format_output in all 18 format specs; an independent decoder per format (Intel HEX records/checksums/EOF, MIF grammar, dump layout, C initialisers, Logisim raw, digit strings, separated lists) must recover exactly the assembled bits padded to the format's granule, with right addresses and counts.",
   note="Line breaks, digit widths and record sizes are unconstrained (not part of decoding). Intel HEX blocks not starting on the address unit are Unspecified. Two defects found by this check were repaired (fix: 650966a, cf1bcbc)."),
 "C12": dict(level="exploration", design="DESIGN.md §4 C12",
   technique="exhaustive enumeration of programs x listing parameters; row parsers compared with real spans, bits and an independent layout",
   text="All item sequences up to a length over instruction/label/constant/data/#res/#align/#addr/#bank items in four configurations (flat, bit-granular banks, output + non-output bank, a bank at logical address 2^64+0x20 + a non-output bank), also split into an included file and with non-ASCII comment lines, are assembled and listed in 55 listing formats (annotated 7 bases x 5 groups, tcgame, addrspan, symbols, mesen-mlb); parsed rows must name each emitted item once, in output order, with the right position, address, digits (= the bits at that position), source text/location; symbol tables must list exactly the non-suppressed symbols with their final values.",
   note="Conventions without a golden file (column radix, addrspan origin, digit alphabets of bases 32..128) are calibrated once from a one-item program, so a consistent change of convention is not an alarm. Order among rows sharing an output position is not compared. Four defects found were repaired (fix: c8d8928, 5976eaf, 30e83cb, 43417c4)."),
 "C13": dict(level="exploration", design="DESIGN.md §4 C13",
   technique="exhaustive enumeration of (valid program, fault kind, fault position, file layout, multi-byte decoration); location oracle computed independently from byte ranges",
   text="Every valid base program up to a length x every fault kind x every fault line x one-file/included-file layouts x 17 decorations (2/3/4-byte characters before, on and after the fault line, TABs, CR LF line endings): every located message (recursively) must name an input file and a byte range on character boundaries inside it; every printed '--> file:line:col' must equal the 1-based line and character column recomputed from the byte range; the first error must lie on the faulty line of the right file. Uses hook H1 (Report::verif_messages).",
   note="The extent of ranges and nested notes are unconstrained; '#res' followed by content on the next line has no first-error verdict (the operand may legally continue there). The byte/char index defect found was repaired (fix: c8d8928)."),
 "C03": dict(level="fault_enumeration", design="DESIGN.md §4 C03, §1 (isolated runs)",
   technique="exhaustive single-edit (thorough: double-edit) token damage of the corpus, complete option grid, every single I/O fault point; real-binary binding of every outcome class",
   text="Every single-token edit (delete, duplicate, swap, replace by / insert each alphabet token, incl. non-ASCII and invalid UTF-8) at every token boundary of the repository's test files and generated programs, a complete options grid (budgets, both switches, defines, --debug-iters), every driver job and output format on empty/1-bit/normal outputs, and every single permanent fault (k-th get_handle/get_bytes/write_bytes, missing/unreadable inputs, uncreatable outputs; also on the real file system) is executed in worker sub-processes; each run must be exactly a clean success or a clean failure, never a panic, error-with-output or silent failure; one representative per outcome class is replayed through the real binary (exit status, stderr, files).",
   note="Quick uses seeds of <= 40 tokens and a 16-token alphabet; thorough all 602 seeds, 48 tokens and all double edits of seeds <= 14 tokens. Slow runs belong to C19. Ten defects found by this check were repaired (see known_findings.json)."),
 "C04": dict(level="model_checking", design="DESIGN.md §4 C04",
   technique="bounded exhaustive enumeration of (type, width, value, spelling) against a closed-form reference predicate",
   text="Every (type u/s/i, width 0..16, value in [-2^N-4, 2^N+4], six spellings) triple and every #dN case is assembled with the real assembler and compared with the property's own inequalities and the low-N-bits emission rule; widths 17..256 at every boundary; the same decision for rule bodies that never read the parameter, for values handed on to a second typed parameter and for arguments that are the instruction's final address. Complete enumeration of a finite space, so an off-by-one at any width/sign is hit.",
   note="Trusts rustc/std/num-bigint and the marker framing (0xa5 before, 1 bit after the field). Quick tier enumerates widths 0..9 completely and 10..16 at boundaries; thorough 0..16 completely."),
 "C05": dict(level="model_checking", design="DESIGN.md §4 C05, §3.2",
   technique="bounded exhaustive enumeration of expression trees, literal spellings and strings against an independent reference evaluator",
   text="All expression trees up to the stated depth over fixed leaf alphabets (every operator, built-in, ordered operator pair), each printed with minimal and with full parenthesisation, are parsed and evaluated by the real parser/evaluator and compared (value, size, error class) with a reference evaluator written from the documentation; literal spellings and string escapes x encodings likewise; the depth<=1 family also through `#d` and constants in the whole assembler.",
   note="Reference evaluator re-derives division, shifts and bit operations by hand on num-bigint integers; inputs the documentation does not determine are classified Unspecified and carry no verdict (counted in evidence). Depth 6 over everything is not reachable; evidence states the completed depth."),

 "C18": dict(level="model_checking", design="DESIGN.md §4 C18, §3.6",
   technique="exhaustive enumeration of command lines (output-group sequences x formats x parameters x spellings x global options at every slot) against a reference CLI model parsed from the usage text; in-process driver and the real binary",
   text="Complete mixed-radix products of output groups (quick: 1 and 2 groups, with and without one global option at every slot; thorough: 3-4 groups) over every documented format name with every parameter state (absent, default, every legal value, 0, 1, non-number, unknown/bare/doubled keys), wrong names, every output mode and input-name shape, every documented spelling of every global option, are run through driver::drive on a recording file server and, for complete sub-grids, through the real binary. The reference model is parsed at run time from src/usage_help.md (names, parameters, defaults, aliases, option spellings): accept/reject before assembling, written bytes = format_output with the documented parameters, exactly one file per non-print group under the given or derived name (never the input name), groups independent, quiet/iters/define/colour/help/version honoured.",
   note="Spellings and defaults the usage text does not show (default format of a group without -f, undocumented aliases, detached --output FILE) carry no verdict. states = distinct (accepted command, file-set) configurations, transitions = groups processed. The defect found (unused define still writing output) was repaired (fix: 7589cff)."),
 "C17": dict(level="exploration", design="DESIGN.md §4 C17",
   technique="exhaustive enumeration of macro rules x calls x contexts, differential against the hand-inlined program and the reference assembler; functions against substituted bodies",
   text="Macro rules over every pair (thorough: triples) of inner instruction forms (6 base rules x operand from {argument, literal, block-local label, backward/forward global label, $}) x every local-label position x untyped/typed parameters x 5 argument pairs x prefixes/suffixes x nesting 0..2 must assemble to exactly the bits of the hand-inlined program (itself checked against the reference assembler); every depth<=1 function body over two parameters x 5 argument pairs equals the substituted expression; functions depending on $/labels called from productions behind a shrinking instruction equal their bodies in place; recursion depth 1..40 is a value or a clean, monotone error; unbounded recursion is an error.",
   note="Arguments are substituted textually (pinned by the repository's tests); typed parameters may additionally reject at the call site. A defect found (forward global label inside an asm block) was repaired (fix: d9be339)."),

 "C19": dict(level="exploration", design="DESIGN.md §4 C19",
   technique="complete grid site x magnitude executed on the real binary under ulimit, one process per case",
   text="About 90 sites (nesting of every bracket/operator/directive form, operator chains, cycles of length 1..4 through functions/asm rules/sub-rules/includes/constants, every numeric position: shifts, slices, widths, #res/#align/#addr, every #bankdef field, incbin ranges, literal/string/element counts, the digit-group size and iteration budget on the command line) x a magnitude ladder (depths 10^k and 2*10^k, values around 2^7..2^65, 2^1000, 2^(2^20)) run on the real binary with 2 GiB address space, 8 MiB stack and a CPU budget: each run must end with exit 0 or exit 1 plus an error line — never a signal, exit 101, timeout or memory-cap death, and no success that contradicts unbounded-integer meaning.",
   note="39 (site, kind) pairs are recorded known findings (stack overflows on deep nesting/chains; positions without a magnitude limit, where the CPU budget or the 2 GiB cap runs out), each listing the ladder magnitudes that fail on the recorded tree; a new site, a new kind or another magnitude at a listed site is a violation. The overflow panics found were repaired (fix: 878505b, 99b6062, 538f4e1). After a time-out the quick tier skips only the magnitudes its known finding lists (reported, exhaustive=false for those)."),
}

NOT_YET = {
}

ALL = ["C%02d" % i for i in range(1, 20)]

def main():
    checks = []
    for pid in ALL:
        if pid not in CHECKS:
            continue
        c = CHECKS[pid]
        checks.append({
            "property_id": pid,
            "quick_cmd": "./check %s --tier quick" % pid,
            "thorough_cmd": "./check %s --tier thorough" % pid,
            "evidence_file": "/verif/evidence/%s.json" % pid,
            "replay_cmd_template": "./check %s --replay {path}" % pid,
            "engine": "cav",
            "level_claimed": {"category": c["level"], "text": c["text"], "design_ref": c["design"]},
            "level_note": c["note"],
            "technique": c["technique"],
        })
    na = []
    for pid in ALL:
        if pid not in CHECKS:
            na.append({"property_id": pid, "reason": NOT_YET.get(pid, "check not built yet in this round (planned in DESIGN.md §4/§11); no verdict is claimed for it")})
    m = {
        "version": 1,
        "setup_cmd": "./check --build-only",
        "hooks": {
            "guard": "--cfg hlorenzi_customasm_verif",
            "enable": "engine/.cargo/config.toml sets rustflags = [\"--cfg\", \"hlorenzi_customasm_verif\"] for the harness build, which compiles /repo as a path dependency",
            "baseline_off_cmd": "cd /repo && cargo test --workspace --no-fail-fast --offline",
            "source_commits": json.load(open(os.path.join(VERIF, "tools", "hook_commits.json"))),
            "add_only": True,
        },
        "engines": [{"name": "cav", "path": "/verif/engine", "serves_properties": [c["property_id"] for c in checks],
                     "kind_free_text": "Rust harness linked against the real crate: canonical-order enumerators, reference models, evidence writer"}],
        "checks": checks,
        "not_applicable": na,
        "notes": "All checks are bounded exhaustive enumerations (no sampling) run by ./check, which rebuilds from /repo's working tree. Exit 0 held / 1 VIOLATION / 2 machinery failure. Known findings: known_findings.json.",
    }
    json.dump(m, open(os.path.join(VERIF, "MANIFEST.json"), "w"), indent=1)
    print("wrote MANIFEST.json with", len(checks), "checks,", len(na), "not_applicable")

if __name__ == "__main__":
    main()
