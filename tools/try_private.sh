#!/bin/bash
# usage: try_private.sh <ABS patch.diff> <ID> [<ID>...]  — like try_mutant.sh, but in a private engine+repo copy
# (/verif/.build/agents/$SLOT, default PRIV), so /repo stays untouched (usable while a `vp run` job reads /repo).
# Run `tools/setup_agent.sh $SLOT` first whenever the engine or /repo HEAD changed.
set -u
PATCH="$1"; shift
SLOT=${SLOT:-PRIV}; A=/verif/.build/agents/$SLOT
[ -d $A/engine ] || /verif/tools/setup_agent.sh $SLOT >/dev/null
export CARGO_NET_OFFLINE=true RUST_BACKTRACE=0 VERIF_DIR=$A/out VERIF_REPO=$A/repo VERIF_SCRATCH=$A/scratch VERIF_REAL_BIN=$A/bin-target/release/customasm
cp /verif/known_findings.json $A/out/; mkdir -p $A/out/evidence; ln -sfn /verif/pyref $A/out/pyref
git -C $A/repo checkout -q -- .
if [ "$PATCH" != "none" ]; then
  if ! git -C $A/repo apply --check "$PATCH" 2>/dev/null; then echo "PATCH DOES NOT APPLY: $PATCH"; exit 3; fi
  git -C $A/repo apply "$PATCH"
fi
trap 'git -C $A/repo checkout -q -- .' EXIT
(cd $A/engine && cargo build --release -q 2>&1 | grep -E "^error" -A5 | head -20)
(cd $A/repo && CARGO_PROFILE_RELEASE_OPT_LEVEL=2 CARGO_PROFILE_RELEASE_OVERFLOW_CHECKS=true CARGO_PROFILE_RELEASE_DEBUG_ASSERTIONS=true CARGO_TARGET_DIR=$A/bin-target cargo build --release --offline -q --bin customasm 2>&1 | grep -E "^error" -A5 | head -20)
for id in "$@"; do
  out=$(cd $A/out && timeout ${TMO:-900} $A/target/release/cav $id --tier ${TIER:-quick} 2>&1); code=$?
  nv=$(echo "$out" | grep -c '^VIOLATION')
  echo "== $id exit=$code violation_lines=$nv"
  echo "$out" | grep -E "violation:|violations with key|MACHINERY|machinery|guard" | head -${SHOW:-6}
done
