#!/bin/bash
# usage: setup_agent.sh <ID> — private engine copy + private customasm worktree for a module-writing sub-agent
set -eu
ID="$1"; A=/verif/.build/agents/$ID
rm -rf "$A/engine" "$A/out"; mkdir -p "$A/out" "$A/scratch"
if [ ! -d "$A/repo" ]; then git -C /repo worktree add -q --detach "$A/repo" HEAD; cp /repo/Cargo.lock "$A/repo/"; fi
git -C "$A/repo" checkout -q --detach $(git -C /repo rev-parse HEAD); git -C "$A/repo" checkout -q -- .
cp -r /verif/engine "$A/engine"
sed -i "s#path = \"/repo\"#path = \"$A/repo\"#" "$A/engine/Cargo.toml"
sed -i "s#\"/repo/src/driver.rs\"#\"$A/repo/src/driver.rs\"#" "$A/engine/src/main.rs"
sed -i "s#^target-dir = .*#target-dir = \"$A/target\"#" "$A/engine/.cargo/config.toml"
cp /verif/known_findings.json "$A/out/" 2>/dev/null || true
cat > "$A/engine/run.sh" <<EOS
#!/bin/bash
# usage: ./run.sh <ID> [--tier thorough] [--replay file]   (set NEED_BIN=1 to (re)build the real binary first)
export CARGO_NET_OFFLINE=true RUST_BACKTRACE=0
export VERIF_DIR=$A/out VERIF_REPO=$A/repo VERIF_SCRATCH=$A/scratch VERIF_REAL_BIN=$A/bin-target/release/customasm
if [ "\${NEED_BIN:-0}" = "1" ]; then
  (cd $A/repo && CARGO_PROFILE_RELEASE_OPT_LEVEL=2 CARGO_PROFILE_RELEASE_OVERFLOW_CHECKS=true CARGO_PROFILE_RELEASE_DEBUG_ASSERTIONS=true CARGO_TARGET_DIR=$A/bin-target cargo build --release --offline -q --bin customasm) || exit 2
fi
cd $A/out && $A/target/release/cav "\$@"; code=\$?; echo "exit=\$code"; exit \$code
EOS
chmod +x "$A/engine/run.sh"
echo "agent dir ready: $A"
