#!/bin/bash
# usage: try_mutant.sh <patch.diff> <ID> [<ID>...]   — applies the patch to /repo, runs quick checks, reverts.
set -u
PATCH="$1"; shift
cd /repo || exit 2
if ! git diff --quiet; then echo "repo working tree dirty"; exit 2; fi
if ! git apply --check "$PATCH" 2>/dev/null; then echo "PATCH DOES NOT APPLY: $PATCH"; exit 3; fi
git apply "$PATCH"
trap 'git -C /repo checkout -- . ; ' EXIT
for id in "$@"; do
  out=$(cd /verif && VERIF_TIER=${TIER:-quick} ./check "$id" --tier ${TIER:-quick} 2>&1)
  code=$?
  nv=$(echo "$out" | grep -c '^VIOLATION')
  echo "== $id exit=$code violation_lines=$nv"
  echo "$out" | grep -E "violation:|violations with key|MACHINERY" | head -${SHOW:-6}
done
