#!/usr/bin/env python3
"""Python-integer re-derivation of the Rust reference evaluator (engine/src/refx.rs), DESIGN §3.1 step 2.

Reads JSON lines {"e": <tree>, "r": <reference result>} written by `cav C05` (model self-check dump), evaluates
every tree again with Python ints following the language description of DESIGN §3.2, and reports disagreements.
Exit 0: all agree; exit 3: some disagreement (a *model* bug by definition, never a verdict about customasm)."""
import json, sys
if hasattr(sys, 'set_int_max_str_digits'):
    sys.set_int_max_str_digits(0)

class Err(Exception): pass
class Unspec(Exception): pass

def literal(s):
    for pre, radix, bits in (("0b", 2, 1), ("0o", 8, 3), ("0x", 16, 4), ("%", 2, 1), ("$", 16, 4)):
        if s.startswith(pre):
            digits = s[len(pre):]
            break
    else:
        digits, radix, bits = s, 10, None
    v, n = 0, 0
    for c in digits:
        if c == "_":
            continue
        try:
            d = int(c, 36)
        except ValueError:
            return None
        if d >= radix:
            return None
        v = v * radix + d
        n += 1
    if n == 0:
        return None
    return v, (bits * n if bits else None)

ESC = {"0": "\0", "t": "\t", "r": "\r", "n": "\n", "'": "'", '"': '"', "\\": "\\"}
def decode_string(src):
    s = src[1:-1]
    out, i = [], 0
    while i < len(s):
        c = s[i]; i += 1
        if c != "\\":
            out.append(c); continue
        if i >= len(s): return None
        e = s[i]; i += 1
        if e in ESC:
            out.append(ESC[e])
        elif e == "x":
            h = s[i:i + 2]; i += 2
            if len(h) != 2: return None
            try: b = int(h, 16)
            except ValueError: return None
            if b > 0x7f: return None
            out.append(chr(b))
        elif e == "u":
            if s[i:i + 1] != "{": return None
            i += 1
            j = s.find("}", i)
            if j < 0 or j - i > 6: return None
            hx = s[i:j]; i = j + 1
            try: cp = int(hx, 16) if hx else 0
            except ValueError: return None
            if cp > 0x10ffff or 0xd800 <= cp <= 0xdfff: return None
            out.append(chr(cp))
        else:
            return None
    return "".join(out)

def encode(text, enc):
    if enc == "utf8": return text.encode("utf-8")
    if enc == "ascii":
        if any(ord(c) >= 0x80 for c in text): raise Unspec()
        return text.encode("ascii")
    return text.encode({"utf16be": "utf-16-be", "utf16le": "utf-16-le", "utf32be": "utf-32-be", "utf32le": "utf-32-le"}[enc])

def intlike(v, sign_matters):
    if v[0] == "int": return v[1], v[2]
    if v[0] == "str":
        b = encode(v[1], v[2])
        if not b: raise Unspec()
        if sign_matters and b[0] >= 0x80: raise Unspec()
        return int.from_bytes(b, "big"), 8 * len(b)
    return None

def to_usize(v):
    if v[0] != "int": raise Err()
    if v[1] < 0: raise Err()
    if v[1].bit_length() > 20: raise Unspec()
    return v[1]

def low(v, n): return v & ((1 << n) - 1)

def ev(e):
    k = e[0]
    if k == "num":
        r = literal(e[1])
        if r is None: raise Err()
        return ("int", r[0], r[1])
    if k == "bool": return ("bool", e[1])
    if k == "str":
        t = decode_string(e[1])
        if t is None: raise Err()
        return ("str", t, "utf8")
    if k == "var": raise Err()
    if k == "un":
        v = ev(e[2])
        if v[0] == "int": return ("int", -v[1] if e[1] == "neg" else ~v[1], None)
        if v[0] == "bool":
            if e[1] == "not": return ("bool", not v[1])
            raise Err()
        if v[0] == "str": raise Unspec()
        raise Err()
    if k == "bin":
        op = e[1]
        if op in ("&&", "||"):
            l = ev(e[2])
            if l[0] != "bool": raise Err()
            if (op == "||" and l[1]) or (op == "&&" and not l[1]): return l
            r = ev(e[3])
            if r[0] != "bool": raise Err()
            return r
        l, r = ev(e[2]), ev(e[3])
        if l[0] == "bool" and r[0] == "bool":
            f = {"&": lambda a, b: a and b, "|": lambda a, b: a or b, "^": lambda a, b: a != b, "==": lambda a, b: a == b, "!=": lambda a, b: a != b}.get(op)
            if f is None: raise Err()
            return ("bool", bool(f(l[1], r[1])))
        sm = op != "@"
        a, b = intlike(l, sm), intlike(r, sm)
        if a is None or b is None: raise Err()
        (x, xs), (y, ys) = a, b
        if op == "+": return ("int", x + y, None)
        if op == "-": return ("int", x - y, None)
        if op == "*": return ("int", x * y, None)
        if op == "/":
            if y == 0: raise Err()
            q = abs(x) // abs(y)
            return ("int", -q if (x < 0) != (y < 0) else q, None)
        if op == "%":
            if y == 0: raise Err()
            m = abs(x) % abs(y)
            return ("int", -m if x < 0 else m, None)
        if op in ("<<", ">>"):
            if y < 0: raise Err()
            if y.bit_length() > 20: raise Unspec()
            return ("int", x << y if op == "<<" else x >> y, None)
        if op == "&": return ("int", x & y, None)
        if op == "|": return ("int", x | y, None)
        if op == "^": return ("int", x ^ y, None)
        if op in ("==", "!=", "<", "<=", ">", ">="):
            return ("bool", {"==": x == y, "!=": x != y, "<": x < y, "<=": x <= y, ">": x > y, ">=": x >= y}[op])
        if op == "@":
            if xs is None or ys is None: raise Err()
            return ("int", (low(x, xs) << ys) | low(y, ys), xs + ys)
        raise Err()
    if k == "tern":
        c = ev(e[1])
        if c[0] != "bool": raise Err()
        return ev(e[2]) if c[1] else ev(e[3])
    if k == "slice":
        xv = ev(e[1])
        a = intlike(xv, False)
        if a is None: raise Err()
        h, l = to_usize(ev(e[2])), to_usize(ev(e[3]))
        if xv[0] == "str" and h + 1 > a[1]:
            intlike(xv, True)
        if h + 1 < l: raise Err()
        if h + 1 == l: raise Unspec()
        n = h + 1 - l
        return ("int", low(a[0] >> l, n), n)
    if k == "short":
        xv = ev(e[1])
        a = intlike(xv, False)
        if a is None: raise Err()
        n = to_usize(ev(e[2]))
        if xv[0] == "str" and n > a[1]:
            intlike(xv, True)
        if n == 0: raise Unspec()
        return ("int", low(a[0], n), n)
    if k == "call":
        f = e[1]
        vals = [ev(a) for a in e[2]]
        if f in ("utf8", "ascii", "utf16be", "utf16le", "utf32be", "utf32le"):
            if len(vals) != 1 or vals[0][0] != "str": raise Err()
            return ("str", vals[0][1], f)
        if len(vals) != 1: raise Err()
        v = vals[0]
        if f == "le":
            if v[0] == "str": raise Unspec()
            if v[0] != "int" or v[2] is None: raise Err()
            if v[2] % 8: raise Err()
            if v[2] == 0: raise Unspec()
            return ("int", int.from_bytes(low(v[1], v[2]).to_bytes(v[2] // 8, "big"), "little"), v[2])
        if f == "sizeof":
            if v[0] == "int":
                if v[2] is None: raise Err()
                return ("int", v[2], None)
            if v[0] == "str": return ("int", 8 * len(encode(v[1], v[2])), None)
            raise Err()
        if f == "strlen":
            if v[0] != "str": raise Err()
            if any(ord(c) >= 0x80 for c in v[1]) or v[2] not in ("utf8", "ascii"): raise Unspec()
            return ("int", len(v[1]), None)
        raise Unspec()
    raise Unspec()

def norm(v):
    if v[0] == "int": return {"int": str(v[1]), "size": v[2]}
    if v[0] == "bool": return {"bool": bool(v[1])}
    if v[0] == "str": return {"str": [v[1], v[2]]}
    return "void"

def main():
    n = bad = skipped = 0
    for line in open(sys.argv[1], encoding="utf-8"):
        rec = json.loads(line)
        n += 1
        try:
            got = norm(ev(rec["e"]))
        except Err:
            got = {"error": 1}
        except Unspec:
            got = {"unspec": 1}
        want = rec["r"]
        if got != want:
            bad += 1
            if bad <= 10:
                sys.stderr.write("DISAGREE %s\n  rust reference: %s\n  python        : %s\n" % (json.dumps(rec["e"]), json.dumps(want), json.dumps(got)))
    print(json.dumps({"trees": n, "disagreements": bad}))
    return 3 if bad else 0

if __name__ == "__main__":
    sys.exit(main())
